(** Sequences of chunks through one stage in isolation (ready receiver): closed forms for the
    bandwidth toxic (chunks of at most 100 ms worth of budget) and the latency toxic, and the rate
    bound / no-throttling statements that follow. *)
From TP Require Import Model.Prelude Extracted Model.Toxics Proofs.GoArith Proofs.StageContract Proofs.StageRun
     Proofs.StageFeed Proofs.C09Proofs Proofs.TimingProofs.
From Coq Require Import ZifyBool ZifyNat.

Definition arrivals (arr : list (Z * chunk)) : list (Z * option chunk) := map (fun pc => (fst pc, Some (snd pc))) arr.

Definition not_limit (tx : toxic) : Prop := match tx with TLimitData _ => False | _ => True end.

Lemma on_sent_ps tx ps now s : not_limit tx -> snd (on_sent tx ps now s) = ps.
Proof.
  intros Hn. destruct s; cbn [on_sent snd]; try reflexivity. destruct k; try reflexivity.
  - destruct tx; reflexivity.
  - destruct tx; reflexivity.
  - destruct tx; try reflexivity. contradiction.
Qed.

Lemma stage_emit_ps tx (Hn : not_limit tx) fuel : forall ps now intr s, snd (stage_emit tx ps now fuel intr s) = ps.
Proof.
  induction fuel as [|f IH]; intros ps now intr s; cbn [stage_emit]; [reflexivity|].
  destruct (mode_of s) as [inp i tm|c|c dl| | |]; try reflexivity.
  - destruct inp; [reflexivity|]. destruct tm as [dl|]; [|reflexivity].
    destruct intr as [[|k]|]; apply IH.
  - pose proof (on_sent_ps tx ps now s Hn) as Hp. destruct (on_sent tx ps now s) as [s' ps']. cbn [snd] in Hp. subst ps'.
    specialize (IH ps now intr s'). destruct (stage_emit tx ps now f intr s') as [[es sf] psf]. cbn [snd] in *. exact IH.
  - pose proof (on_sent_ps tx ps now s Hn) as Hp. destruct (on_sent tx ps now s) as [s' ps']. cbn [snd] in Hp. subst ps'.
    specialize (IH ps now intr s'). destruct (stage_emit tx ps now f intr s') as [[es sf] psf]. cbn [snd] in *. exact IH.
Qed.

Lemma triple_eta {A B C} (r : A * B * C) : r = (fst (fst r), snd (fst r), snd r).
Proof. destruct r as [[a b] c]. reflexivity. Qed.

Lemma feed_one_eq tx (Hn : not_limit tx) fuel ps acc tmr at_ (c : chunk) es s' :
  let r := stage_emit tx ps at_ fuel None (fst (on_input tx ps at_ [] (Some c) (Idle acc tmr))) in
  fst (fst r) = es -> final_st r = s' ->
  feed_one tx fuel ps (Idle acc tmr) at_ (Some c) = (es, s', ps).
Proof.
  intros r He Hf. unfold feed_one. fold r. rewrite (triple_eta r). unfold final_st in Hf. rewrite He, Hf.
  f_equal. apply stage_emit_ps. exact Hn.
Qed.

(* ------------------------------------------------------------------ bandwidth *)
(** chunk k is picked up at p_k with credit a_k <= 0 and leaves at p_k + max(0, a_k + D_k) *)
Fixpoint bw_sched (rate acc : Z) (arr : list (Z * chunk)) : list (Z * bytes) * Z :=
  match arr with
  | [] => ([], acc)
  | (p, c) :: r =>
    let sl := acc + dur (zlen (cdata c)) rate in
    let '(es, a') := bw_sched rate (Z.min 0 sl) r in
    ((p + Z.max 0 sl, cdata c) :: es, a')
  end.

Definition small_for (rate : Z) (c : chunk) : Prop := zlen (cdata c) <= rate * 100 /\ zlen (cdata c) <= 4294967296.

Theorem bw_feed rate (Hr : rate_ok rate) fuel (Hf : (1 < fuel)%nat) ps : forall arr acc,
  - two63 / 2 <= acc <= 0 -> Forall (fun pc => small_for rate (snd pc)) arr ->
  feed (TBandwidth rate) fuel ps (Idle acc None) (arrivals arr) =
  (fst (bw_sched rate acc arr), Idle (snd (bw_sched rate acc arr)) None, ps).
Proof.
  induction arr as [|[p c] r IH]; intros acc Ha Hs; cbn [arrivals map feed bw_sched fst snd]; [reflexivity|].
  inversion Hs as [|? ? [H1 H2] Hs']; subst. cbn [snd] in H1, H2.
  destruct (bw_small_chunk rate ps p acc c fuel Hf Hr Ha H1 H2) as [He Hfin].
  rewrite (feed_one_eq (TBandwidth rate) I fuel ps acc None p c _ _ He Hfin).
  set (sl := acc + dur (zlen (cdata c)) rate) in *.
  fold (arrivals r). rewrite (IH (Z.min 0 sl)) by (try assumption; unfold sl; pose proof (zlen_nonneg (cdata c)); destruct Hr;
    assert (0 <= dur (zlen (cdata c)) rate) by (unfold dur; apply Z.div_pos; lia); lia).
  destruct (bw_sched rate (Z.min 0 sl) r) as [es a']. reflexivity.
Qed.

(** the arithmetic: when each chunk is picked up no earlier than the previous one left, chunk k
    leaves no earlier than  p_1 + a_1 + D_1 + ... + D_k *)
Fixpoint sumdur (rate : Z) (arr : list (Z * chunk)) : Z :=
  match arr with [] => 0 | (_, c) :: r => dur (zlen (cdata c)) rate + sumdur rate r end.

Fixpoint picked_after (prev : Z) (arr : list (Z * chunk)) (es : list (Z * bytes)) : Prop :=
  match arr, es with
  | (p, _) :: r, (e, _) :: es' => prev <= p /\ picked_after e r es'
  | _, _ => True
  end.

Theorem bw_cumulative rate : forall arr acc base,
  acc <= 0 ->
  picked_after base arr (fst (bw_sched rate acc arr)) ->
  forall k e d, nth_error (fst (bw_sched rate acc arr)) k = Some (e, d) ->
  base + acc + sumdur rate (firstn (S k) arr) <= e.
Proof.
  induction arr as [|[p c] r IH]; intros acc base Ha Hp k e d Hn; cbn [bw_sched] in *.
  - destruct k; discriminate.
  - set (sl := acc + dur (zlen (cdata c)) rate) in *.
    destruct (bw_sched rate (Z.min 0 sl) r) as [es a'] eqn:Hs. cbn [fst] in *. cbn [picked_after] in Hp. destruct Hp as [Hbp Hrest].
    destruct k as [|k]; cbn [nth_error] in Hn.
    + inversion Hn; subst e d. simpl firstn. cbn [sumdur]. subst sl. clear -Ha Hbp.
      generalize (dur (zlen (cdata c)) rate). intros D. lia.
    + change (firstn (S (S k)) ((p, c) :: r)) with ((p, c) :: firstn (S k) r). cbn [sumdur].
      assert (Hrest' : picked_after (p + Z.max 0 sl) r (fst (bw_sched rate (Z.min 0 sl) r))) by (rewrite Hs; exact Hrest).
      assert (Hn' : nth_error (fst (bw_sched rate (Z.min 0 sl) r)) k = Some (e, d)) by (rewrite Hs; exact Hn).
      pose proof (IH (Z.min 0 sl) (p + Z.max 0 sl) ltac:(lia) Hrest' k e d Hn') as H. subst sl. clear -H Ha Hbp.
      revert H. generalize (dur (zlen (cdata c)) rate) (sumdur rate (firstn (S k) r)). intros D S H. lia.
Qed.

(* ------------------------------------------------------------------ latency (jitter 0) *)
Fixpoint lat_sched (L : Z) (arr : list (Z * chunk)) : list (Z * bytes) :=
  match arr with [] => [] | (p, c) :: r => (Z.max p (cts c + L), cdata c) :: lat_sched L r end.

Theorem lat_feed lat fuel (Hf : (1 < fuel)%nat) ps (Hl : ms_ok lat) : forall arr,
  feed (TLatency lat 0) fuel ps (Idle 0 None) (arrivals arr) = (lat_sched (lat * 1000000) arr, Idle 0 None, ps).
Proof.
  destruct (latency_delay_range lat 0 [] Hl ltac:(unfold ms_ok; lia)) as (d & ds & Hd & Hrange). cbn in Hrange. subst d.
  induction arr as [|[p c] r IH]; cbn [arrivals map feed lat_sched fst snd]; [reflexivity|].
  destruct (latency_one lat 0 ps [] p c fuel _ ds Hf Hd) as [He Hfin].
  rewrite (feed_one_eq (TLatency lat 0) I fuel ps 0 None p c _ _ He Hfin).
  fold (arrivals r). rewrite IH. reflexivity.
Qed.

(** no throttling: a burst stamped at the same instant and picked up back to back leaves at one
    instant, stamp + latency - each chunk is delayed once, from its arrival *)
Theorem lat_burst L ts : forall arr,
  Forall (fun pc => cts (snd pc) = ts /\ fst pc <= ts + L) arr ->
  Forall (fun e => fst e = ts + L) (lat_sched L arr).
Proof.
  induction arr as [|[p c] r IH]; intros H; cbn [lat_sched]; [constructor|].
  inversion H as [|? ? [H1 H2] Hr]; subst. cbn [fst snd] in *. constructor; [cbn [fst]; lia|apply IH; exact Hr].
Qed.

(** ... in bytes: by the time chunk k leaves, at most rate bytes per millisecond have left, up to one
    nanosecond's worth per chunk for Go's truncating division *)
Fixpoint sumlen (arr : list (Z * chunk)) : Z :=
  match arr with [] => 0 | (_, c) :: r => zlen (cdata c) + sumlen r end.

Lemma sumdur_bound rate (Hr : 0 < rate) : forall arr,
  sumlen arr * 1000000 - Z.of_nat (length arr) * rate <= sumdur rate arr * rate /\ (arr <> [] -> sumlen arr * 1000000 - Z.of_nat (length arr) * rate < sumdur rate arr * rate).
Proof.
  induction arr as [|[p c] r IH]; cbn [sumlen sumdur length]; [split; [lia|congruence]|].
  destruct IH as [IH _]. pose proof (dur_bound (zlen (cdata c)) rate Hr (zlen_nonneg _)) as Hd.
  split; [|intros _]; nia.
Qed.

Theorem bw_rate_bound rate (Hr : 0 < rate) arr acc base :
  acc <= 0 -> picked_after base arr (fst (bw_sched rate acc arr)) ->
  forall k e d, nth_error (fst (bw_sched rate acc arr)) k = Some (e, d) ->
  1000000 * sumlen (firstn (S k) arr) < rate * (e - base - acc) + rate * Z.of_nat (S k).
Proof.
  intros Ha Hp k e d Hn.
  pose proof (bw_cumulative rate arr acc base Ha Hp k e d Hn) as Hc.
  assert (Hk : (S k <= length arr)%nat).
  { assert (Hlen : length (fst (bw_sched rate acc arr)) = length arr).
    { clear. revert acc. induction arr as [|[p c] r IH]; intros acc; cbn [bw_sched]; [reflexivity|].
      specialize (IH (Z.min 0 (acc + dur (zlen (cdata c)) rate))). destruct (bw_sched rate _ r). cbn [fst length] in *. lia. }
    assert (k < length (fst (bw_sched rate acc arr)))%nat by (apply nth_error_Some; congruence). lia. }
  assert (Hne : firstn (S k) arr <> []) by (destruct arr; [simpl in Hk; lia|discriminate]).
  destruct (sumdur_bound rate Hr (firstn (S k) arr)) as [_ Hs]. specialize (Hs Hne).
  rewrite firstn_length_le in Hs by exact Hk. nia.
Qed.

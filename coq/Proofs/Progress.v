(** No deadlock on a static link (C01/C02 liveness half). For a link of data-preserving toxics that
    is not being reconfigured: if nothing can move now and no timer, receiver pause or source event
    is pending, then everything the reader took from the sender has been delivered, nothing is
    held anywhere, and if the sender has closed then every stage has exited and the receiver has
    been closed. Together with the safety invariant [stream l = source] this says the executable
    run only stops when the transfer is complete. Proved through a closure-order invariant:
    stub i+1's input is closed exactly when stub i has closed, a stage is closing / gone only
    after its input was closed and drained. *)
From TP Require Import Model.Prelude Extracted Model.Toxics Model.Timed
     Proofs.GoArith Proofs.StageContract Proofs.LinkInv Proofs.LinkStatic Proofs.LinkFrame.
From Coq Require Import ZifyBool ZifyNat.

Definition late (st : lstate) : bool := match st with Closing | Exited | ScWait _ => true | _ => false end.

Definition stub_inv (s : stub) : Prop :=
  (s_closed s = true <-> s_st s = Exited) /\ (late (s_st s) = true -> s_in_closed s = true /\ s_inq s = []).

(** [u] = "the producer feeding this list has closed"; [sc] = what the consumer after the list sees *)
Fixpoint chain_inv (u : bool) (ss : list stub) (sc : bool) : Prop :=
  match ss with
  | [] => sc = u
  | s :: r => s_in_closed s = u /\ stub_inv s /\ chain_inv (s_closed s) r sc
  end.

Definition rd_closed (l : link) : bool := match l_rd l with RClosed => true | _ => false end.
Definition sink_closed_b (l : link) : bool := match l_sink_closed l with Some _ => true | None => false end.
Definition closure_inv (l : link) : Prop := chain_inv (rd_closed l) (l_stubs l) (sink_closed_b l).

Lemma chain_inv_app u a b sc : chain_inv u (a ++ b) sc <-> exists m, chain_inv u a m /\ chain_inv m b sc.
Proof.
  revert u. induction a as [|s a IH]; intros u; cbn [app chain_inv].
  - split; [intros H; exists u; auto|intros (m & -> & H); exact H].
  - split.
    + intros (H1 & H2 & H3). apply IH in H3 as (m & Ha & Hb). exists m. auto.
    + intros (m & (H1 & H2 & H3) & Hb). split; [exact H1|]. split; [exact H2|]. apply IH. exists m. auto.
Qed.

(* ---- what the stage transitions can and cannot produce *)
Lemma on_input_some_not_late tx ps now draws (c : chunk) acc tmr st' ds :
  preserving tx -> on_input tx ps now draws (Some c) (Idle acc tmr) = (st', ds) -> late st' = false /\ st' <> Exited.
Proof.
  intros Hp H. cbn [on_input] in H. destruct tx; cbn in Hp; try contradiction.
  - inversion H; subst. split; [reflexivity|discriminate].
  - destruct (latency_delay lat jit draws) as [[d|] ds']; inversion H; subst; split; try reflexivity; discriminate.
  - inversion H; subst. unfold bw_loop. destruct (bw_split_test _ _); split; try reflexivity; discriminate.
  - destruct (slicer_chunk _ _ _ _ _ _) as [os ds'| |]; inversion H; subst; try (split; [reflexivity|discriminate]).
    unfold slicer_next. destruct os as [|lo [|hi rest']]; try (split; [reflexivity|discriminate]).
    destruct ((lo =? 0) && slice_ok lo hi (zlen (cdata c))); split; try reflexivity; discriminate.
  - inversion H; subst. split; [reflexivity|discriminate].
Qed.

Lemma on_input_none_late tx ps now draws acc tmr st' ds :
  preserving tx -> on_input tx ps now draws None (Idle acc tmr) = (st', ds) -> st' <> Exited.
Proof.
  intros Hp H. cbn [on_input] in H. destruct tx; cbn in Hp; try contradiction; inversion H; subst; discriminate.
Qed.

Lemma on_sent_not_late tx ps now (c : chunk) k st' ps' :
  preserving tx -> wf tx (Send c k) -> k <> KExit -> on_sent tx ps now (Send c k) = (st', ps') -> late st' = false /\ st' <> Exited.
Proof.
  intros Hp Hw Hk H. cbn [on_sent] in H. destruct k as [acc| |p sl|c' rest o tot|]; try congruence.
  - inversion H; subst. split; [reflexivity|discriminate].
  - destruct tx; inversion H; subst; try (split; [reflexivity|discriminate]).
    unfold bw_loop. destruct (bw_split_test _ _); split; try reflexivity; discriminate.
  - destruct tx; inversion H; subst; split; try reflexivity; discriminate.
  - destruct tx; cbn in Hp; try contradiction; cbn in Hw; contradiction.
Qed.

Lemma on_timer_late tx now s :
  preserving tx -> wf tx s -> late (on_timer tx now s) = true -> late s = true.
Proof.
  intros Hp Hw H. unfold on_timer in H. destruct s; cbn [on_timer_gen] in H; try exact H; try reflexivity.
  - destruct tmr; [|exact H]. destruct tx; cbn in Hp; try contradiction; cbn in Hw; contradiction.
  - destruct tx; try exact H. destruct (slice_ok _ _ _); discriminate.
  - unfold slicer_next in H. destruct rest as [|lo [|hi rest']]; try discriminate.
    destruct ((lo =? o) && slice_ok lo hi tot); discriminate.
  - destruct tx; cbn in Hp; try contradiction; cbn in Hw; contradiction.
Qed.

Lemma on_timer_not_exited tx now s : s <> Exited -> on_timer tx now s <> Exited.
Proof.
  intros Hs. unfold on_timer. destruct s; cbn [on_timer_gen]; try discriminate; try exact Hs.
  - destruct tmr; [discriminate|exact Hs].
  - destruct tx; try discriminate. destruct (slice_ok _ _ _); discriminate.
  - unfold slicer_next. destruct rest as [|lo [|hi rest']]; try discriminate.
    destruct ((lo =? o) && slice_ok lo hi tot); discriminate.
Qed.

(* ---- link level *)
Lemma chain_inv_split u pre s post sc :
  chain_inv u (pre ++ s :: post) sc <->
  exists m, chain_inv u pre m /\ s_in_closed s = m /\ stub_inv s /\ chain_inv (s_closed s) post sc.
Proof.
  rewrite chain_inv_app. cbn [chain_inv]. split; intros (m & H1 & H2); exists m; tauto.
Qed.

Lemma listens_idle s : listens_input s = true -> exists acc tmr, s_st s = Idle acc tmr.
Proof. unfold listens_input. destruct (s_st s); cbn; try discriminate. eauto. Qed.

Lemma stub_inv_open_not_late s : stub_inv s -> s_in_closed s = false -> late (s_st s) = false.
Proof. intros [_ H] Hc. destruct (late (s_st s)) eqn:E; [|reflexivity]. destruct (H eq_refl) as [H1 _]. congruence. Qed.

(** handing a chunk to the consumers [post] of a producer that has not closed *)
Lemma offer_chain l l1 pre post c :
  l_stubs l = (pre ++ post)%list -> Forall stub_ok post ->
  chain_inv false post (sink_closed_b l) ->
  offer l (length pre) c = Some l1 ->
  exists post', l_stubs l1 = (pre ++ post')%list /\ Forall stub_ok post' /\ chain_inv false post' (sink_closed_b l1) /\
                rd_closed l1 = rd_closed l.
Proof.
  intros Hl Hok Hc Ho. unfold offer in Ho. rewrite Hl in Ho.
  destruct post as [|t post0].
  - rewrite app_nil_r in Ho. replace (nth_error pre (length pre)) with (@None stub) in Ho
      by (symmetry; apply nth_error_None; lia).
    destruct (l_wr_ready l <=? l_now l); [|discriminate]. inversion Ho; subst l1; clear Ho.
    exists []. unfold deliver_sink. destruct (zlen (cdata c) =? 0); cbn [l_stubs]; repeat split; auto.
  - rewrite nth_error_split in Ho. cbn [chain_inv] in Hc. destruct Hc as (Hic & Hinv & Hrest).
    pose proof (stub_inv_open_not_late t Hinv Hic) as Hnl.
    inversion Hok as [|? ? Hokt Hok0]; subst.
    destruct (0 <? s_cap t).
    + destruct (zlen (s_inq t) <? s_cap t); [|discriminate]. inversion Ho; subst l1; clear Ho.
      eexists (_ :: post0). unfold upd_stub; cbn [l_stubs]. rewrite Hl, set_nth_split.
      split; [reflexivity|]. split.
      * constructor; [|exact Hok0]. unfold stub_ok, eff_tx in *; cbn. exact Hokt.
      * split; [|reflexivity]. cbn [chain_inv s_in_closed s_closed]. split; [exact Hic|]. split; [|exact Hrest].
        destruct Hinv as [Ha Hb]. split; cbn [s_closed s_st s_in_closed s_inq]; [exact Ha|]. intros Hlate. congruence.
    + destruct (listens_input t && _) eqn:Hrv; [|discriminate]. apply andb_prop in Hrv as [Hli Hq].
      inversion Ho; subst l1; clear Ho. destruct (listens_idle t Hli) as (acc & tmr & Hst).
      unfold stub_input. rewrite Hst.
      destruct (on_input (eff_tx t) (s_ps t) (l_now l) (l_draws l) (Some c) (Idle acc tmr)) as [st' ds] eqn:Hin.
      destruct Hokt as (Hp & Ha & Hw & Hps). rewrite Hst in Hw.
      destruct (on_input_some_not_late _ _ _ _ _ _ _ _ _ Hp Hin) as [Hl' Hne].
      destruct (on_input_contract _ _ _ _ _ _ _ _ _ Ha Hw Hps Hin) as [Hw' _].
      eexists (_ :: post0). cbn [l_stubs]. rewrite Hl, set_nth_split.
      split; [reflexivity|]. split.
      * constructor; [|exact Hok0]. unfold stub_ok, eff_tx in *; cbn. tauto.
      * split; [|reflexivity]. cbn [chain_inv s_in_closed s_closed]. split; [exact Hic|]. split; [|exact Hrest].
        destruct Hinv as [Hx Hy]. split; cbn [s_closed s_st s_in_closed s_inq].
        -- split; [intros Hc'; apply Hx in Hc'; congruence|intros; contradiction].
        -- intros Hlate. congruence.
Qed.

Lemma stub_inv_flags s s' :
  s_closed s' = s_closed s -> s_in_closed s' = s_in_closed s -> s_inq s' = s_inq s ->
  s_closed s = false -> s_st s' <> Exited -> (late (s_st s') = true -> late (s_st s) = true) ->
  stub_inv s -> stub_inv s'.
Proof.
  intros Hc Hi Hq Hcf Hne Hl [Ha Hb]. split.
  - rewrite Hc, Hcf. split; [discriminate|intros; contradiction].
  - intros H. rewrite Hi, Hq. apply Hb. apply Hl. exact H.
Qed.

Lemma not_exited_open s : stub_inv s -> s_st s <> Exited -> s_closed s = false.
Proof. intros [Ha _] Hne. destruct (s_closed s); [|reflexivity]. exfalso. apply Hne. apply Ha. reflexivity. Qed.

(** closing the input of the consumers [post] of a producer that has just closed *)
Lemma close_chain u post sc :
  chain_inv u post sc ->
  chain_inv true (match post with [] => [] | t :: r => mkStub (s_tx t) (s_eff t) (s_st t) (s_ps t) (s_inq t) (s_cap t) true (s_closed t) :: r end)
            (match post with [] => true | _ => sc end).
Proof.
  destruct post as [|t r]; cbn [chain_inv]; [reflexivity|]. intros (Hic & [Ha Hb] & Hr).
  cbn [s_in_closed s_closed]. split; [reflexivity|]. split; [|exact Hr].
  split; cbn [s_closed s_st s_in_closed s_inq]; [exact Ha|]. intros H. split; [reflexivity|]. apply Hb. exact H.
Qed.

Lemma close_downstream_fields l j :
  rd_closed (close_downstream l j) = rd_closed l /\
  l_stubs (close_downstream l j) =
    match nth_error (l_stubs l) j with
    | None => l_stubs l
    | Some t => set_nth j (mkStub (s_tx t) (s_eff t) (s_st t) (s_ps t) (s_inq t) (s_cap t) true (s_closed t)) (l_stubs l)
    end /\
  sink_closed_b (close_downstream l j) = match nth_error (l_stubs l) j with None => true | Some _ => sink_closed_b l end.
Proof. unfold close_downstream. destruct (nth_error (l_stubs l) j); repeat split; reflexivity. Qed.

Theorem closure_step l a l' :
  link_ok l -> static_link l -> closure_inv l -> sched_step l a = Some l' -> closure_inv l'.
Proof.
  intros Hok Hst Hci Hstep. unfold closure_inv in *.
  destruct a as [i|i|i| |t]; simpl in Hstep.
  - (* AMove *)
    unfold stub_move in Hstep.
    destruct (nth_error (l_stubs l) i) as [s|] eqn:Hn; [|discriminate].
    destruct (nth_split _ _ _ Hn) as (pre & post & Hl & Hlen). subst i.
    pose proof Hok as Hok0. unfold link_ok in Hok0. rewrite Hl in Hok0.
    pose proof (ok_get _ _ _ Hok0) as Hs. destruct Hs as (Hp & Hat & Hw & Hps).
    pose proof (forall_nth _ _ _ _ Hst Hn) as Hss. unfold static_stub in Hss.
    rewrite Hl in Hci. apply chain_inv_split in Hci as (m & Hpre & Him & Hinv & Hpost).
    destruct (mode_of (s_st s)) as [inp intr tm|c|c dl| | |] eqn:Hm; try discriminate.
    + (* receive *)
      destruct inp; [|discriminate].
      destruct (s_st s) as [acc tmr| | | | | | | | | | | |] eqn:Hsts; simpl in Hm; try discriminate.
      assert (Hopen : s_closed s = false) by (apply not_exited_open; [exact Hinv|rewrite Hsts; discriminate]).
      assert (Hgen : forall (c : option chunk) q,
                 (c = None -> s_in_closed s = true /\ q = []) ->
                 chain_inv (rd_closed (stub_input l (length pre) s c q)) (l_stubs (stub_input l (length pre) s c q))
                           (sink_closed_b (stub_input l (length pre) s c q))).
      { intros c q Hnone. unfold stub_input. rewrite Hsts.
        destruct (on_input (eff_tx s) (s_ps s) (l_now l) (l_draws l) c (Idle acc tmr)) as [st' ds] eqn:Hin.
        cbn [l_stubs]. rewrite Hl, set_nth_split. apply chain_inv_split. exists m.
        split; [exact Hpre|]. split; [exact Him|]. split; [|exact Hpost].
        split; cbn [s_closed s_st s_in_closed s_inq].
        - rewrite Hopen. split; [discriminate|]. intros He. exfalso. subst st'.
          destruct c as [ch|].
          + destruct (on_input_some_not_late _ _ _ _ _ _ _ _ _ Hp Hin) as [_ Hne]. congruence.
          + exact (on_input_none_late _ _ _ _ _ _ _ _ Hp Hin eq_refl).
        - intros Hlate. destruct c as [ch|].
          + destruct (on_input_some_not_late _ _ _ _ _ _ _ _ _ Hp Hin) as [Hnl _]. congruence.
          + apply Hnone. reflexivity. }
      destruct (s_inq s) as [|c q] eqn:Hq.
      * destruct (s_in_closed s) eqn:Hic; [|discriminate]. inversion Hstep; subst l'. apply Hgen. auto.
      * inversion Hstep; subst l'. apply Hgen. discriminate.
    + (* send *)
      destruct (s_st s) as [| c0 k | | | | | | | | | | |] eqn:Hsts; simpl in Hm; try discriminate. inversion Hm; subst c0.
      assert (Hopen : s_closed s = false) by (apply not_exited_open; [exact Hinv|rewrite Hsts; discriminate]).
      destruct (offer l (S (length pre)) c) as [l1|] eqn:Hoff; [|discriminate].
      assert (Hl2 : l_stubs l = ((pre ++ [s]) ++ post)%list) by (rewrite <- app_assoc; exact Hl).
      assert (Hlen2 : length (pre ++ [s]) = S (length pre)) by (rewrite app_length; simpl; lia).
      rewrite <- Hlen2 in Hoff. rewrite Hopen in Hpost.
      assert (Hokpost : Forall stub_ok post) by (apply Forall_app in Hok0 as [_ H2]; inversion H2; assumption).
      destruct (offer_chain l l1 _ post c Hl2 Hokpost Hpost Hoff) as (post' & Hl1 & Hok1 & Hc1 & Hrd).
      rewrite <- app_assoc in Hl1. cbn [app] in Hl1.
      rewrite Hl1, nth_error_split in Hstep. inversion Hstep; subst l'; clear Hstep.
      unfold stub_sent. rewrite Hsts.
      destruct (on_sent (eff_tx s) (s_ps s) (l_now l1) (Send c k)) as [st' ps'] eqn:Hos.
      assert (Hk : k <> KExit) by (intros ->; exact Hss).
      destruct (on_sent_not_late _ _ _ _ _ _ _ Hp Hw Hk Hos) as [Hnl Hne].
      unfold upd_stub. cbn [l_stubs]. rewrite Hl1, set_nth_split.
      change (rd_closed _) with (rd_closed l1). change (sink_closed_b _) with (sink_closed_b l1). rewrite Hrd.
      apply chain_inv_split. exists m. split; [exact Hpre|]. split; [exact Him|].
      cbn [s_closed]. rewrite Hopen. split; [|exact Hc1].
      split; cbn [s_closed s_st s_in_closed s_inq].
      * split; [discriminate|intros; contradiction].
      * intros; congruence.
    + (* SendT: not in a static link *)
      destruct (s_st s); simpl in Hm; try discriminate. contradiction.
    + (* close *)
      inversion Hstep; subst l'; clear Hstep.
      destruct (s_st s) eqn:Hsts; simpl in Hm; try discriminate.
      set (s' := mkStub (s_tx s) (s_eff s) Exited (s_ps s) (s_inq s) (s_cap s) (s_in_closed s) true).
      assert (Hinv' : stub_inv s').
      { destruct Hinv as [Ha Hb]. split; cbn; [tauto|]. intros _. apply Hb. rewrite Hsts. reflexivity. }
      assert (Hl1 : l_stubs (upd_stub l (length pre) s') = (pre ++ s' :: post)%list)
        by (unfold upd_stub; cbn [l_stubs]; rewrite Hl; apply set_nth_split).
      destruct (close_downstream_fields (upd_stub l (length pre) s') (S (length pre))) as (E1 & E2 & E3).
      rewrite E1, E2, E3, Hl1, nth_error_split_S.
      change (rd_closed (upd_stub l (length pre) s')) with (rd_closed l).
      change (sink_closed_b (upd_stub l (length pre) s')) with (sink_closed_b l).
      pose proof (close_chain _ _ _ Hpost) as Hcc.
      destruct post as [|t post0]; cbn [nth_error].
      * apply chain_inv_split. exists m. split; [exact Hpre|]. split; [exact Him|]. split; [exact Hinv'|]. exact Hcc.
      * rewrite set_nth_split_S.
        apply chain_inv_split. exists m. split; [exact Hpre|]. split; [exact Him|]. split; [exact Hinv'|]. exact Hcc.
  - (* ATimer *)
    unfold stub_timer in Hstep.
    destruct (nth_error (l_stubs l) i) as [s|] eqn:Hn; [|discriminate].
    destruct (nth_split _ _ _ Hn) as (pre & post & Hl & Hlen). subst i.
    pose proof Hok as Hok0. unfold link_ok in Hok0. rewrite Hl in Hok0.
    destruct (ok_get _ _ _ Hok0) as (Hp & Hat & Hw & Hps).
    rewrite Hl in Hci. apply chain_inv_split in Hci as (m & Hpre & Him & Hinv & Hpost).
    destruct (mode_of (s_st s)) eqn:Hm; try discriminate.
    destruct (timer_due (l_now l) timer); [|discriminate].
    inversion Hstep; subst l'; clear Hstep.
    assert (Hne : s_st s <> Exited) by (intros E; rewrite E in Hm; discriminate).
    unfold upd_stub, with_st. cbn [l_stubs]. rewrite Hl, set_nth_split.
    change (rd_closed _) with (rd_closed l). change (sink_closed_b _) with (sink_closed_b l).
    apply chain_inv_split. exists m. split; [exact Hpre|]. split; [exact Him|]. split; [|exact Hpost].
    apply (stub_inv_flags s); try reflexivity.
    + apply not_exited_open; assumption.
    + cbn [s_st]. apply on_timer_not_exited. exact Hne.
    + cbn [s_st]. apply on_timer_late; assumption.
    + exact Hinv.
  - (* ASendTimeout *)
    rewrite (static_no_send_timeout l i Hst) in Hstep. discriminate.
  - (* AReader *)
    unfold try_reader in Hstep.
    destruct (l_rd l) as [|c|] eqn:Hrd; [| |discriminate].
    + assert (Hu : rd_closed l = false) by (unfold rd_closed; rewrite Hrd; reflexivity). rewrite Hu in Hci.
      destruct (l_rest l) as [|b rest] eqn:Hrest.
      * destruct (l_src l) as [|[t d|t] src'] eqn:Hsrc; [discriminate| |].
        -- destruct (t <=? l_now l); [|discriminate].
           destruct d as [|b d]; inversion Hstep; subst l'; exact Hci.
        -- destruct (t <=? l_now l); [|discriminate]. inversion Hstep; subst l'; clear Hstep.
           destruct (close_downstream_fields (set_rd l RClosed src' [] (l_rx l)) 0) as (E1 & E2 & E3).
           rewrite E1, E2, E3. cbn [set_rd l_stubs].
           change (rd_closed (set_rd l RClosed src' [] (l_rx l))) with true.
           change (sink_closed_b (set_rd l RClosed src' [] (l_rx l))) with (sink_closed_b l).
           pose proof (close_chain _ _ _ Hci) as Hcc.
           destruct (l_stubs l) as [|s0 ss] eqn:Hss; cbn [nth_error set_nth]; exact Hcc.
      * inversion Hstep; subst l'. exact Hci.
    + assert (Hu : rd_closed l = false) by (unfold rd_closed; rewrite Hrd; reflexivity). rewrite Hu in Hci.
      destruct (offer l 0 c) as [l1|] eqn:Ho; [|discriminate]. inversion Hstep; subst l'; clear Hstep.
      destruct (offer_chain l l1 [] (l_stubs l) c eq_refl Hok Hci Ho) as (post' & Hl1 & _ & Hc1 & _).
      cbn [app] in Hl1. cbn [l_stubs set_rd rd_closed l_rd]. rewrite Hl1. exact Hc1.
  - destruct (l_now l <=? t); [|discriminate]. inversion Hstep; subst l'. exact Hci.
Qed.

(* ================================================================== nothing enabled, nothing pending *)
Lemma try_stubs_none l : forall n i, try_stubs l n = None -> (i < n)%nat -> try_stub l i = None.
Proof.
  induction n as [|n IH]; intros i H Hi; [lia|]. cbn [try_stubs] in H.
  destruct (try_stub l n) eqn:E; [discriminate|].
  destruct (Nat.eq_dec i n) as [->|Hne]; [exact E|apply IH; [exact H|lia]].
Qed.

Lemma opt_min_none a b : opt_min a b = None -> a = None /\ b = None.
Proof. destruct a, b; cbn; intros H; try discriminate; auto. Qed.

Lemma deadlines_none ss :
  fold_right (fun s acc => opt_min (stub_deadline s) acc) None ss = None -> Forall (fun s => stub_deadline s = None) ss.
Proof.
  induction ss as [|s ss IH]; cbn [fold_right]; intros H; [constructor|].
  apply opt_min_none in H as [H1 H2]. constructor; auto.
Qed.

Lemma next_time_none l :
  next_time l = None ->
  Forall (fun s => stub_deadline s = None) (l_stubs l) /\ (l_now l <? l_wr_ready l) = false /\
  (l_rd l = RIdle -> l_rest l = [] -> l_src l = []).
Proof.
  unfold next_time. intros H.
  set (ds0 := fold_right _ None (l_stubs l)) in *.
  assert (Hds : (if l_now l <? l_wr_ready l then opt_min (Some (l_wr_ready l)) ds0 else ds0) = None).
  { destruct (l_rd l); try exact H. destruct (l_rest l); try exact H. destruct (l_src l); try exact H.
    apply opt_min_none in H as [H _]. discriminate. }
  destruct (l_now l <? l_wr_ready l) eqn:Hw.
  - apply opt_min_none in Hds as [Hx _]. discriminate.
  - split; [apply deadlines_none; exact Hds|]. split; [reflexivity|].
    intros Hrd Hrest. rewrite Hrd, Hrest in H. destruct (l_src l); [reflexivity|].
    apply opt_min_none in H as [H _]. discriminate.
Qed.

(** the three shapes a stub can have when nothing moves and nothing is pending *)
Definition st_idle_open (s : stub) : Prop := (exists acc, s_st s = Idle acc None) /\ s_inq s = [] /\ s_in_closed s = false.
Definition st_gone (s : stub) : Prop := s_st s = Exited.

Lemma seg_idle_open s : st_idle_open s -> seg s = [].
Proof. intros ((acc & H) & Hq & _). unfold seg. rewrite H, Hq. reflexivity. Qed.

Lemma seg_gone s : stub_inv s -> st_gone s -> seg s = [].
Proof.
  intros [_ Hb] H. unfold st_gone in H. unfold seg. rewrite H. cbn [held].
  destruct (Hb ltac:(rewrite H; reflexivity)) as [_ Hq]. rewrite Hq. reflexivity.
Qed.

Lemma offer_keeps_index l j c l1 i s : offer l j c = Some l1 -> nth_error (l_stubs l) i = Some s -> nth_error (l_stubs l1) i <> None.
Proof.
  intros Ho Hn. destruct (offer_frame _ _ _ _ Ho) as [Hid _]. unfold idents in Hid.
  intros E. apply nth_error_None in E. assert (Hlen : length (l_stubs l1) = length (l_stubs l)).
  { rewrite <- (map_length ident (l_stubs l1)), Hid, map_length. reflexivity. }
  assert (i < length (l_stubs l))%nat by (apply nth_error_Some; congruence). lia.
Qed.

Lemma stub_shape l pre s post :
  l_stubs l = (pre ++ s :: post)%list -> stub_ok s -> static_stub s ->
  try_stub l (length pre) = None -> stub_deadline s = None ->
  st_idle_open s \/ (exists c k, s_st s = Send c k /\ offer l (S (length pre)) c = None) \/ st_gone s.
Proof.
  intros Hl (Hp & Ha & Hw & Hps) Hss Ht Hd. unfold try_stub in Ht.
  destruct (stub_move l (length pre)) eqn:Hm; [discriminate|]. clear Ht.
  unfold stub_move in Hm. rewrite Hl, nth_error_split in Hm.
  unfold stub_deadline in Hd. unfold static_stub in Hss.
  destruct (s_st s) as [acc tmr|c k|c dl| | | | | | | | | |] eqn:Hst; cbn [mode_of] in Hm, Hd; try discriminate.
  - left. subst tmr. destruct (s_inq s) as [|c q] eqn:Hq; [|discriminate].
    destruct (s_in_closed s) eqn:Hic; [discriminate|]. unfold st_idle_open. rewrite Hst, Hq. eauto.
  - right. left. exists c, k. split; [reflexivity|].
    destruct (offer l (S (length pre)) c) as [l1|] eqn:Ho; [|reflexivity]. exfalso.
    assert (Hn : nth_error (l_stubs l) (length pre) = Some s) by (rewrite Hl; apply nth_error_split).
    pose proof (offer_keeps_index _ _ _ _ _ _ Ho Hn) as Hne.
    destruct (nth_error (l_stubs l1) (length pre)); [discriminate|contradiction].
  - right. right. exact Hst.
  - cbn in Hw. contradiction.
  - cbn in Hw. contradiction.
Qed.

(** no stub is stuck in a send: argued from the sink backwards *)
Lemma no_blocked_send l (Hok : link_ok l) (Hst : static_link l)
      (Hnow : step_now l = None) (Hnext : next_time l = None) :
  forall post pre u, l_stubs l = (pre ++ post)%list -> chain_inv u post (sink_closed_b l) ->
  Forall (fun s => st_idle_open s \/ st_gone s) post.
Proof.
  destruct (next_time_none l Hnext) as (Hdl & Hwr & _).
  assert (Hts : try_stubs l (length (l_stubs l)) = None).
  { unfold step_now in Hnow. destruct (try_stubs l (length (l_stubs l))); [discriminate|reflexivity]. }
  induction post as [|s post IH]; intros pre u Hl Hc; [constructor|].
  cbn [chain_inv] in Hc. destruct Hc as (Hic & Hinv & Hrest).
  assert (Hl2 : l_stubs l = ((pre ++ [s]) ++ post)%list) by (rewrite <- app_assoc; exact Hl).
  pose proof (IH _ _ Hl2 Hrest) as Hpost.
  constructor; [|exact Hpost].
  assert (Hoks : stub_ok s) by (unfold link_ok in Hok; rewrite Hl in Hok; eapply ok_get; exact Hok).
  assert (Hn : nth_error (l_stubs l) (length pre) = Some s) by (rewrite Hl; apply nth_error_split).
  assert (Hsts : static_stub s) by (eapply forall_nth; eassumption).
  assert (Hds : stub_deadline s = None) by (eapply (forall_nth _ _ _ _ Hdl); exact Hn).
  assert (Hti : try_stub l (length pre) = None).
  { apply (try_stubs_none l _ _ Hts). apply nth_error_Some. congruence. }
  destruct (stub_shape l pre s post Hl Hoks Hsts Hti Hds) as [H|[(c & k & Hsend & Hoff)|H]]; [left; exact H| |right; exact H].
  exfalso. unfold offer in Hoff. rewrite Hl, nth_error_split_S in Hoff.
  destruct post as [|t post0]; cbn [nth_error] in Hoff.
  - replace (l_wr_ready l <=? l_now l) with true in Hoff by lia. discriminate.
  - inversion Hpost as [|? ? Ht _]; subst. cbn [chain_inv] in Hrest. destruct Hrest as (Hict & Hinvt & _).
    destruct Ht as [((acc & Hti') & Hq & Hopen)|Hgone].
    + destruct (0 <? s_cap t) eqn:Hcap.
      * rewrite Hq in Hoff. replace (zlen (@nil chunk) <? s_cap t) with true in Hoff by (unfold zlen; simpl; lia). discriminate.
      * unfold listens_input in Hoff. rewrite Hti', Hq in Hoff. cbn in Hoff. discriminate.
    + unfold st_gone in Hgone. destruct Hinvt as [_ Hb].
      destruct (Hb ltac:(rewrite Hgone; reflexivity)) as [Hin _].
      rewrite Hin in Hict. destruct Hinv as [Ha _]. symmetry in Hict. apply Ha in Hict. congruence.
Qed.

Lemma all_gone_when_closed : forall ss u sc,
  chain_inv u ss sc -> Forall (fun s => st_idle_open s \/ st_gone s) ss -> u = true ->
  Forall st_gone ss /\ sc = true.
Proof.
  induction ss as [|s ss IH]; intros u sc Hc Hf Hu; cbn [chain_inv] in Hc.
  - split; [constructor|congruence].
  - destruct Hc as (Hic & Hinv & Hrest). inversion Hf as [|? ? Hs Hf']; subst.
    assert (Hg : st_gone s).
    { destruct Hs as [(_ & _ & Hopen)|Hg]; [congruence|exact Hg]. }
    assert (Hcl : s_closed s = true) by (destruct Hinv as [Ha _]; apply Ha; exact Hg).
    destruct (IH _ _ Hrest Hf' Hcl) as [H1 H2]. split; [constructor; assumption|exact H2].
Qed.

Lemma flow_clear ss u sc : chain_inv u ss sc -> Forall (fun s => st_idle_open s \/ st_gone s) ss -> flow ss = [].
Proof.
  revert u. induction ss as [|s ss IH]; intros u Hc Hf; [reflexivity|]. cbn [chain_inv] in Hc.
  destruct Hc as (_ & Hinv & Hrest). inversion Hf as [|? ? Hs Hf']; subst. cbn [flow].
  rewrite (IH _ Hrest Hf'). destruct Hs as [Hs|Hs]; [rewrite (seg_idle_open _ Hs)|rewrite (seg_gone _ Hinv Hs)]; reflexivity.
Qed.

(** THE THEOREM: a static link of preserving toxics with nothing enabled and nothing pending is done *)
Theorem no_deadlock l :
  link_ok l -> static_link l -> closure_inv l -> step_now l = None -> next_time l = None ->
  flow (l_stubs l) = [] /\
  match l_rd l with
  | RSend _ => False
  | RIdle => l_rest l = [] /\ l_src l = []
  | RClosed => Forall (fun s => s_st s = Exited) (l_stubs l) /\ l_sink_closed l <> None
  end.
Proof.
  intros Hok Hst Hci Hnow Hnext.
  pose proof (no_blocked_send l Hok Hst Hnow Hnext (l_stubs l) [] (rd_closed l) eq_refl Hci) as Hall.
  split; [eapply flow_clear; eassumption|].
  destruct (next_time_none l Hnext) as (_ & Hwr & Hsrc).
  assert (Hrdr : try_reader l = None).
  { unfold step_now in Hnow. destruct (try_stubs l (length (l_stubs l))); [discriminate|exact Hnow]. }
  unfold try_reader in Hrdr. unfold closure_inv in Hci.
  destruct (l_rd l) as [|c|] eqn:Hrd.
  - destruct (l_rest l) eqn:Hrest; [|discriminate]. split; [reflexivity|]. apply Hsrc; reflexivity.
  - destruct (offer l 0 c) as [l1|] eqn:Ho; [discriminate|]. unfold offer in Ho.
    assert (Hu : rd_closed l = false) by (unfold rd_closed; rewrite Hrd; reflexivity). rewrite Hu in Hci.
    destruct (l_stubs l) as [|t ss] eqn:Hss; cbn [nth_error] in Ho.
    + replace (l_wr_ready l <=? l_now l) with true in Ho by lia. discriminate.
    + inversion Hall as [|? ? Ht _]; subst. cbn [chain_inv] in Hci. destruct Hci as (Hic & Hinv & _).
      destruct Ht as [((acc & Hti) & Hq & Hopen)|Hgone].
      * destruct (0 <? s_cap t) eqn:Hcap.
        -- rewrite Hq in Ho. replace (zlen (@nil chunk) <? s_cap t) with true in Ho by (unfold zlen; simpl; lia). discriminate.
        -- unfold listens_input in Ho. rewrite Hti, Hq in Ho. cbn in Ho. discriminate.
      * unfold st_gone in Hgone. destruct Hinv as [_ Hb].
        destruct (Hb ltac:(rewrite Hgone; reflexivity)) as [Hin _]. congruence.
  - assert (Hu : rd_closed l = true) by (unfold rd_closed; rewrite Hrd; reflexivity).
    destruct (all_gone_when_closed _ _ _ Hci Hall Hu) as [Hg Hsc]. split; [exact Hg|].
    unfold sink_closed_b in Hsc. destruct (l_sink_closed l); [discriminate|discriminate].
Qed.

(* ================================================================== reachable states *)
Lemma mk_stubs_chain chain : forall first now, chain_inv false (mk_stubs chain first now) false.
Proof.
  induction chain as [|[tx eff] chain IH]; intros first now; cbn [mk_stubs chain_inv]; [reflexivity|].
  cbn [s_in_closed s_closed]. split; [reflexivity|]. split; [|apply IH].
  split; cbn [s_closed s_st s_in_closed s_inq].
  - split; [discriminate|]. destruct (if eff then tx else TNoop); cbn; try discriminate. destruct (new_pstate tx); discriminate.
  - destruct (if eff then tx else TNoop); cbn; try discriminate. destruct (new_pstate tx); cbn; discriminate.
Qed.

Lemma init_closure chain src draws sd : closure_inv (link_init_slow chain src draws sd).
Proof. unfold closure_inv, link_init_slow. cbn [l_stubs rd_closed l_rd sink_closed_b l_sink_closed]. apply mk_stubs_chain. Qed.

Lemma sched_run_closure sigma : forall l l',
  link_ok l -> static_link l -> closure_inv l -> sched_run l sigma = Some l' ->
  link_ok l' /\ static_link l' /\ closure_inv l'.
Proof.
  induction sigma as [|a sigma IH]; intros l l' Hok Hst Hci Hrun; simpl in Hrun.
  - inversion Hrun; subst. auto.
  - destruct (sched_step l a) as [l1|] eqn:Hs; [|discriminate].
    assert (Hnt : forall i, a <> ASendTimeout i).
    { intros i ->. simpl in Hs. rewrite (static_no_send_timeout l i Hst) in Hs. discriminate. }
    destruct (step_preserves l l1 a Hok Hnt Hs) as [Hok1 _].
    pose proof (static_step l a l1 Hst Hs) as Hst1.
    pose proof (closure_step l a l1 Hok Hst Hci Hs) as Hci1.
    exact (IH l1 l' Hok1 Hst1 Hci1 Hrun).
Qed.

Lemma run_quiet_stops fuel : forall horizon l l', run_quiet fuel horizon l = Some l' -> step_now l' = None.
Proof.
  induction fuel as [|f IH]; intros horizon l l' H; cbn [run_quiet] in H; [discriminate|].
  destruct (step_now l) as [l1|] eqn:Hs; [eapply IH; exact H|].
  destruct (next_time l) as [t|] eqn:Hn.
  - destruct (t <=? horizon); [eapply IH; exact H|]. inversion H; subst. exact Hs.
  - inversion H; subst. exact Hs.
Qed.

Lemma chain_inv_all ss : forall u sc, chain_inv u ss sc -> Forall stub_inv ss.
Proof. induction ss as [|s ss IH]; intros u sc H; [constructor|]. cbn [chain_inv] in H. destruct H as (_ & Hs & Hr). constructor; [exact Hs|eapply IH; exact Hr]. Qed.

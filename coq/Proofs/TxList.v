(** C04 on the link level: which toxic (and which toxicity decision) each stub of a connection runs
    is changed by the control actions of the reconfiguration operations only, and by each of them in
    exactly one way - whatever the data path does in between, under every interleaving. For the
    executable operation processes this gives: after an add / update / remove has run to completion on
    a live connection, the stubs run exactly the toxics of the chain as the API lists it. *)
From TP Require Import Model.Prelude Extracted Model.Toxics Model.Timed Model.Reconf Model.ReconfRun
     Proofs.GoArith Proofs.LinkStatic Proofs.LinkFrame.
From Coq Require Import ZifyBool ZifyNat.

Definition te (s : stub) : toxic * bool := (s_tx s, s_eff s).
Definition tes (l : link) : list (toxic * bool) := map te (l_stubs l).

Fixpoint upd_nth {A} (n : nat) (f : A -> A) (l : list A) : list A :=
  match l, n with
  | [], _ => []
  | x :: t, O => f x :: t
  | x :: t, S n' => x :: upd_nth n' f t
  end.

(** the effect of a control action on the list of (toxic, decision) pairs *)
Definition tes_after (a : cact) (ts : list (toxic * bool)) : list (toxic * bool) :=
  match a with
  | CSetTx i tx => upd_nth i (fun p => (tx, snd p)) ts
  | CRestart i tx eff => upd_nth i (fun _ => (tx, eff)) ts
  | CAppend tx eff => ts ++ [(tx, eff)]
  | CInsertAfter i tx eff => firstn (S i) ts ++ (tx, eff) :: skipn (S i) ts
  | CInsertDead i tx => firstn (S i) ts ++ (tx, false) :: skipn (S i) ts
  | CDelete i => remove_nth i ts
  | _ => ts
  end.

Lemma map_set_nth_upd {A B} (f : A -> B) (g : B -> B) (l : list A) i x s :
  nth_error l i = Some s -> f x = g (f s) -> map f (set_nth i x l) = upd_nth i g (map f l).
Proof.
  revert i; induction l as [|y l IH]; intros [|i] Hn Hf; simpl in *; try discriminate.
  - inversion Hn; subst. now rewrite Hf.
  - f_equal. eapply IH; eassumption.
Qed.

Lemma map_remove_nth {A B} (f : A -> B) (l : list A) : forall i, map f (remove_nth i l) = remove_nth i (map f l).
Proof. induction l as [|x l IH]; intros [|i]; simpl; auto. now rewrite IH. Qed.

Lemma tes_close_downstream l j : tes (close_downstream l j) = tes l.
Proof.
  unfold close_downstream. destruct (nth_error (l_stubs l) j) as [t|] eqn:Hn; [|reflexivity].
  unfold tes, upd_stub; cbn [l_stubs]. eapply map_set_nth; [exact Hn|reflexivity].
Qed.

Lemma tes_idents l l' : idents l' = idents l -> tes l' = tes l.
Proof.
  unfold idents, tes. intros H.
  assert (E : forall ss, map te ss = map (fun x => (fst (fst x), snd (fst x))) (map ident ss)).
  { intros ss. rewrite map_map. reflexivity. }
  rewrite !E. now rewrite H.
Qed.

Lemma tes_offer l j c l1 : offer l j c = Some l1 -> tes l1 = tes l.
Proof. intros H. apply tes_idents. exact (proj1 (offer_frame _ _ _ _ H)). Qed.

Theorem ctl_tes l a l' : ctl_step l a = Some l' -> tes l' = tes_after a (tes l).
Proof.
  intros H. destruct a as [i|i tx eff|tx eff|i|i|i|i|i tx|i|i|i tx eff|i tx]; cbn [ctl_step tes_after] in *.
  - destruct (nth_error (l_stubs l) i) as [s|] eqn:Hn; [|discriminate].
    destruct (listens_interrupt s); [|discriminate]. inversion H; subst.
    unfold tes, upd_stub; cbn [l_stubs]. eapply map_set_nth; [exact Hn|reflexivity].
  - destruct (nth_error (l_stubs l) i) as [s|] eqn:Hn; [|discriminate].
    destruct (is_exited s && negb (s_closed s)); [|discriminate]. inversion H; subst.
    unfold tes, upd_stub; cbn [l_stubs]. eapply map_set_nth_upd; [exact Hn|reflexivity].
  - inversion H; subst. unfold tes; cbn [l_stubs]. rewrite map_app. reflexivity.
  - destruct (nth_error (l_stubs l) i) as [s|] eqn:Hn; [|discriminate].
    destruct (is_exited s && negb (s_closed s)); [|discriminate].
    destruct (s_inq s) as [|c q]; [discriminate|].
    destruct (offer l (S i) c) as [l1|] eqn:Ho; [|discriminate].
    destruct (nth_error (l_stubs l1) i) as [s1|] eqn:Hn1; [|discriminate]. inversion H; subst.
    rewrite <- (tes_offer _ _ _ _ Ho). unfold tes, upd_stub; cbn [l_stubs]. eapply map_set_nth; [exact Hn1|reflexivity].
  - destruct (nth_error (l_stubs l) i) as [s|] eqn:Hn; [|discriminate].
    destruct (is_exited s && negb (s_closed s)); [|discriminate].
    destruct (s_inq s) as [|c q]; [discriminate|]. inversion H; subst.
    unfold tes, upd_stub; cbn [l_stubs]. eapply map_set_nth; [exact Hn|reflexivity].
  - destruct (nth_error (l_stubs l) i) as [s|] eqn:Hn; [|discriminate].
    destruct (is_exited s && negb (s_closed s) && _ && _); [|discriminate]. inversion H; subst.
    unfold tes; cbn [l_stubs]. apply map_remove_nth.
  - destruct (nth_error (l_stubs l) i) as [s|] eqn:Hn; [|discriminate].
    destruct (is_exited s && negb (s_closed s)); [|discriminate]. inversion H; subst.
    rewrite tes_close_downstream. unfold tes, upd_stub; cbn [l_stubs]. eapply map_set_nth; [exact Hn|reflexivity].
  - destruct (nth_error (l_stubs l) i) as [s|] eqn:Hn; [|discriminate]. inversion H; subst.
    unfold tes, upd_stub; cbn [l_stubs]. eapply map_set_nth_upd; [exact Hn|reflexivity].
  - destruct i as [|j]; [discriminate|].
    destruct (nth_error (l_stubs l) (S j)) as [s|] eqn:Hn; [|discriminate].
    destruct (nth_error (l_stubs l) j) as [sp|] eqn:Hnp; [|discriminate].
    destruct (is_exited s && negb (s_closed s) && (s_cap s =? 0) && _); [|discriminate].
    assert (Hgen : forall c, tes (stub_sent (upd_stub l (S j) (mkStub (s_tx s) (s_eff s) (s_st s) (s_ps s) [c] (s_cap s) (s_in_closed s) (s_closed s))) j sp) = tes l).
    { intros c. set (l1 := upd_stub l (S j) _).
      assert (H1 : tes l1 = tes l) by (unfold tes, l1, upd_stub; cbn [l_stubs]; eapply map_set_nth; [exact Hn|reflexivity]).
      assert (Hnp1 : nth_error (l_stubs l1) j = Some sp).
      { unfold l1, upd_stub; cbn [l_stubs]. clear -Hnp. revert j Hnp. generalize (l_stubs l) as ss.
        induction ss as [|y ss IH]; intros [|j] Hnp; simpl in *; try discriminate.
        - destruct ss; exact Hnp.
        - apply IH. exact Hnp. }
      rewrite <- H1. unfold stub_sent. destruct (on_sent _ _ _ _) as [st' ps'].
      unfold tes, upd_stub; cbn [l_stubs]. eapply map_set_nth; [exact Hnp1|reflexivity]. }
    destruct (mode_of (s_st sp)); try discriminate; inversion H; subst; apply Hgen.
  - destruct (nth_error (l_stubs l) i) as [s|] eqn:Hn; [|discriminate].
    destruct (is_exited s && negb (s_closed s) && s_in_closed s && _); [|discriminate]. inversion H; subst.
    rewrite tes_close_downstream. unfold tes, upd_stub; cbn [l_stubs]. eapply map_set_nth; [exact Hn|reflexivity].
  - destruct (Nat.ltb i (length (l_stubs l))); [|discriminate]. inversion H; subst.
    unfold tes; cbn [l_stubs]. rewrite map_app, firstn_map, skipn_map. reflexivity.
  - destruct (Nat.ltb i (length (l_stubs l))); [|discriminate]. inversion H; subst.
    unfold tes; cbn [l_stubs]. rewrite map_app, firstn_map, skipn_map. reflexivity.
Qed.

Theorem data_tes l a l' : sched_step l a = Some l' -> tes l' = tes l.
Proof. intros H. apply tes_idents. exact (step_idents _ _ _ H). Qed.

(** over any interleaving: fold the control actions, ignore the data path *)
Fixpoint tes_fold (sigma : list mact) (ts : list (toxic * bool)) : list (toxic * bool) :=
  match sigma with
  | [] => ts
  | MData _ :: r => tes_fold r ts
  | MCtl a :: r => tes_fold r (tes_after a ts)
  end.

Theorem mixed_run_tes sigma : forall l l', mixed_run l sigma = Some l' -> tes l' = tes_fold sigma (tes l).
Proof.
  induction sigma as [|a sigma IH]; intros l l' H; simpl in H; [inversion H; subst; reflexivity|].
  destruct (mixed_step l a) as [l1|] eqn:Hs; [|discriminate].
  rewrite (IH _ _ H). destruct a as [d|c]; simpl in Hs |- *.
  - now rewrite (data_tes _ _ _ Hs).
  - now rewrite (ctl_tes _ _ _ Hs).
Qed.

(** the three operations, as the control actions their processes emit (Model/ReconfRun.v), on the list
    of toxics of a connection: update replaces, add inserts behind the last stub, remove deletes *)
Lemma upd_nth_twice {A} (f g : A -> A) (l : list A) i : upd_nth i g (upd_nth i f l) = upd_nth i (fun x => g (f x)) l.
Proof. revert i; induction l as [|x l IH]; intros [|i]; simpl; auto. now rewrite IH. Qed.

Theorem update_replaces p tx eff ts :
  tes_after (CRestart p tx eff) (tes_after (CInterrupt p) (tes_after (CSetTx p tx) ts)) = upd_nth p (fun _ => (tx, eff)) ts.
Proof. cbn [tes_after]. now rewrite upd_nth_twice. Qed.

Theorem add_inserts p tx eff effp (ts : list (toxic * bool)) txp effp0 :
  nth_error ts p = Some (txp, effp0) ->
  tes_after (CRestart p txp effp) (tes_after (CInsertAfter p tx eff) (tes_after (CInterrupt p) ts)) =
  firstn (S p) (upd_nth p (fun _ => (txp, effp)) ts) ++ (tx, eff) :: skipn (S p) ts.
Proof.
  intros Hn. cbn [tes_after]. revert p Hn. induction ts as [|x ts IH]; intros [|p] Hn; simpl in *; try discriminate.
  - reflexivity.
  - f_equal. destruct ts as [|y ts']; [destruct p; discriminate|]. exact (IH p Hn).
Qed.

Theorem remove_deletes p q txq effq (ts : list (toxic * bool)) :
  (q < p)%nat ->
  tes_after (CRestart q txq effq) (tes_after (CDelete p) ts) = upd_nth q (fun _ => (txq, effq)) (remove_nth p ts).
Proof. reflexivity. Qed.

(** Proofs about M1 (ChanWriter/ChanReader): the FIFO invariant over all action sequences. *)
From TP Require Import Model.Prelude Model.Stream.
From Coq Require Import ZifyBool ZifyNat.

(** What the first [if] of [ChanReader.Read] must guarantee. [o] = len(out), [n] = bytes copied
    from the carry, [bl] = carry left. The premise [n < o -> bl = 0] is what [copy] guarantees. *)
Definition early_ok (early : Z -> Z -> Z -> bool) : Prop :=
  forall o n bl, 0 <= n <= o -> 0 <= bl -> (n < o -> bl = 0) ->
    (early o n bl = false -> bl = 0) /\ (early o n bl = true -> 0 < n \/ o = 0).

Definition carry_bytes (p : pipe) : bytes := match carry p with Some b => b | None => [] end.
Definition queued (p : pipe) : bytes := concat (map (resolve (caller p)) (queue p)).
Definition is_copy (q : qchunk) : Prop := match q with QCopy _ => True | QRef _ => False end.

Record Inv (p : pipe) : Prop := {
  inv_fifo : returned p ++ carry_bytes p ++ queued p = written p;
  inv_copy : Forall is_copy (queue p);
  inv_nil  : carry p = None -> queue p = [] /\ closed p = true;
  inv_eof  : eof p = true -> carry p = None;
}.

Lemma resolve_copy c1 c2 q : is_copy q -> resolve c1 q = resolve c2 q.
Proof. destruct q; simpl; tauto. Qed.

Lemma queued_caller_irrel c1 c2 qs :
  Forall is_copy qs -> concat (map (resolve c1) qs) = concat (map (resolve c2) qs).
Proof.
  induction 1 as [|q qs Hq _ IH]; simpl; [reflexivity|].
  now rewrite (resolve_copy c1 c2 q Hq), IH.
Qed.

Lemma zlen_skipn_min (b : bytes) (o : nat) :
  let n := Nat.min o (length b) in
  0 <= Z.of_nat n <= Z.of_nat o /\ 0 <= zlen (skipn n b) /\
  (Z.of_nat n < Z.of_nat o -> zlen (skipn n b) = 0).
Proof.
  unfold zlen; rewrite skipn_length; lia.
Qed.

Lemma zlen_0_nil {A} (l : list A) : zlen l = 0 -> l = [].
Proof. destruct l; unfold zlen; simpl; [reflexivity|lia]. Qed.

Lemma Inv_init : Inv pipe_init.
Proof. split; simpl; auto; discriminate. Qed.

Section WithEarly.
  Variable early : Z -> Z -> Z -> bool.
  Hypothesis Hearly : early_ok early.

  (** Sequential specification of [read]: whatever it returns, nothing of the carry is lost. *)
  Lemma read_spec (b : bytes) (o : nat) (av : avail) (intr : bool) buf' out e consumed :
    read early (Some b) o av intr = RRet buf' out e consumed ->
    (length out <= o)%nat /\
    match av, consumed with
    | _, false => b = out ++ match buf' with Some b' => b' | None => [] end /\ buf' <> None
    | VChunk d, true => b ++ d = out ++ match buf' with Some b' => b' | None => [] end /\ buf' <> None
    | VClosed, true => b = out /\ buf' = None
    | VNone, true => False
    end /\
    (e = EEOF -> buf' = None /\ out = []) /\
    ((0 < o)%nat -> out <> [] \/ e <> ENil \/ consumed = true).
  Proof.
    unfold read.
    set (n := Nat.min o (length b)).
    destruct (zlen_skipn_min b o) as (Hn & Hbl & Hlt); fold n in Hn, Hbl, Hlt.
    destruct (Hearly (Z.of_nat o) (Z.of_nat n) (zlen (skipn n b)) Hn Hbl Hlt) as [Hf Ht].
    assert (Hsplit : b = firstn n b ++ skipn n b) by (symmetry; apply firstn_skipn).
    assert (Hlen : length (firstn n b) = n) by (rewrite firstn_length; lia).
    destruct (early _ _ _) eqn:He.
    - (* early return *)
      intros Hx; inversion Hx; subst buf' out e consumed; clear Hx.
      split; [rewrite Hlen; lia|].
      split; [destruct av; (split; [exact Hsplit|discriminate])|].
      split; [discriminate|].
      intros Ho. destruct Ht as [Ht|Ht]; [reflexivity| |lia].
      left. intros Hnil. rewrite Hnil in Hlen; simpl in Hlen. lia.
    - specialize (Hf eq_refl). apply zlen_0_nil in Hf.
      assert (Hb : b = firstn n b) by (rewrite Hf, app_nil_r in Hsplit; exact Hsplit).
      destruct (0 <? n)%nat eqn:Hn0.
      + (* optional refill *)
        destruct av as [| |d]; unfold refill; intros Hx; inversion Hx; subst buf' out e consumed; clear Hx.
        * split; [rewrite Hlen; lia|]. rewrite Hf, app_nil_r.
          split; [split; [exact Hb|discriminate]|]. split; [discriminate|].
          intros _. left. intros Hnil. rewrite Hnil in Hlen; simpl in Hlen. lia.
        * split; [rewrite Hlen; lia|]. split; [split; [exact Hb|reflexivity]|].
          split; [discriminate|]. intros _. right; right; reflexivity.
        * split; [rewrite app_length, Hlen, firstn_length; lia|].
          split; [split; [|discriminate]|].
          { rewrite <- app_assoc, firstn_skipn. now rewrite <- Hb. }
          split; [discriminate|]. intros _; right; right; reflexivity.
      + assert (n = 0)%nat by lia.
        assert (Hbnil : b = []) by (rewrite Hb; replace n with 0%nat by lia; reflexivity).
        destruct intr.
        * intros Hx; inversion Hx; subst buf' out e consumed; clear Hx.
          split; [rewrite Hlen; lia|].
          split; [destruct av; (split; [rewrite app_nil_r; exact Hb|discriminate])|].
          split; [discriminate|]. intros _; right; left; discriminate.
        * destruct av as [| |d]; unfold refill; intros Hx; inversion Hx; subst buf' out e consumed; clear Hx.
          -- split; [simpl; lia|]. split; [split; [exact Hbnil|reflexivity]|].
             split; [tauto|]. intros _; right; left; discriminate.
          -- split; [rewrite app_length, Hlen, firstn_length; lia|].
             split; [split; [|discriminate]|].
             { rewrite <- app_assoc, firstn_skipn. now rewrite <- Hb. }
             split; [discriminate|]. intros _; right; right; reflexivity.
  Qed.

  Lemma step_inv (p p' : pipe) (a : action) :
    Inv p -> step early true p a = Some p' -> Inv p'.
  Proof.
    intros [Hfifo Hcopy Hnil Heof] Hstep.
    destruct a as [d|d| |o intr]; simpl in Hstep.
    - (* Write *)
      destruct (closed p) eqn:Hc; [discriminate|]. inversion Hstep; subst p'; clear Hstep.
      split; unfold carry_bytes, queued in *; simpl.
      + rewrite map_app, concat_app; simpl. rewrite app_nil_r.
        rewrite (queued_caller_irrel d (caller p) _ Hcopy).
        rewrite <- Hfifo. now rewrite !app_assoc.
      + apply Forall_app; split; [exact Hcopy|repeat constructor].
      + intros Hn. destruct (Hnil Hn) as [_ Hcl]. congruence.
      + exact Heof.
    - (* Mutate *)
      inversion Hstep; subst p'; clear Hstep.
      split; unfold carry_bytes, queued in *; simpl; auto.
      now rewrite (queued_caller_irrel d (caller p) _ Hcopy).
    - (* Close *)
      destruct (closed p) eqn:Hc; [discriminate|]. inversion Hstep; subst p'; clear Hstep.
      split; unfold carry_bytes, queued in *; simpl; auto.
      intros Hn. destruct (Hnil Hn) as [Hq _]. auto.
    - (* Read *)
      destruct (read early (carry p) o (avail_of p) intr) as [buf' out e consumed|] eqn:Hr;
        [|discriminate].
      inversion Hstep; subst p'; clear Hstep.
      destruct (carry p) as [b|] eqn:Hcarry.
      + pose proof (read_spec b o _ intr _ _ _ _ Hr) as (_ & Hdata & He & _).
        unfold avail_of in Hdata, Hr.
        split; unfold carry_bytes, queued in *; simpl; rewrite ?Hcarry in *.
        * destruct consumed.
          -- destruct (queue p) as [|q qs] eqn:Hq.
             ++ destruct (closed p); [|contradiction].
                destruct Hdata as [Hb Hb']; subst b buf'. simpl in *.
                rewrite app_nil_r in *. exact Hfifo.
             ++ destruct Hdata as [Hd _]. simpl in *.
                rewrite <- Hfifo. rewrite <- !app_assoc. f_equal.
                rewrite (app_assoc b). rewrite Hd. now rewrite <- app_assoc.
          -- assert (Hb : b = out ++ match buf' with Some b' => b' | None => [] end).
             { destruct (queue p); [destruct (closed p)|]; tauto. }
             rewrite <- Hfifo, Hb. now rewrite <- !app_assoc.
        * destruct consumed; [|exact Hcopy].
          destruct (queue p); simpl; [constructor|]. now inversion Hcopy.
        * intros Hn; subst buf'.
          destruct consumed.
          -- destruct (queue p) as [|q qs] eqn:Hq.
             ++ destruct (closed p); [split; reflexivity|contradiction].
             ++ destruct Hdata as [_ Hne]. congruence.
          -- exfalso. destruct (queue p); [destruct (closed p)|]; destruct Hdata; congruence.
        * destruct e; intros Hx;
            [specialize (Heof Hx); discriminate|now destruct He|specialize (Heof Hx); discriminate].
      + (* carry = None: Read returns EOF and changes nothing *)
        simpl in Hr. inversion Hr; subst; clear Hr.
        split; unfold carry_bytes, queued in *; simpl; rewrite ?Hcarry in *; auto.
        now rewrite app_nil_r.
  Qed.

  Theorem run_inv (l : list action) (p p' : pipe) :
    Inv p -> run early true p l = Some p' -> Inv p'.
  Proof.
    revert p; induction l as [|a l IH]; simpl; intros p HI Hrun.
    - now inversion Hrun; subst.
    - destruct (step early true p a) as [p1|] eqn:Hs; [|discriminate].
      eapply IH; [eapply step_inv; eassumption|exact Hrun].
  Qed.

  (** Writes and the ghost [written] agree with the script. *)
  Fixpoint script_written (l : list action) : bytes :=
    match l with
    | [] => []
    | AWrite d :: l' => d ++ script_written l'
    | _ :: l' => script_written l'
    end.

  Lemma run_written (l : list action) : forall p p',
    run early true p l = Some p' -> written p' = written p ++ script_written l.
  Proof.
    induction l as [|a l IH]; simpl; intros p p' Hrun.
    - inversion Hrun; now rewrite app_nil_r.
    - destruct (step early true p a) as [p1|] eqn:Hs; [|discriminate].
      rewrite (IH _ _ Hrun).
      destruct a as [d|d| |o intr]; simpl in Hs.
      + destruct (closed p); [discriminate|]. inversion Hs; subst; simpl. now rewrite app_assoc.
      + inversion Hs; subst; reflexivity.
      + destruct (closed p); [discriminate|]. inversion Hs; subst; reflexivity.
      + destruct (read _ _ _ _ _); [|discriminate]. inversion Hs; subst; reflexivity.
  Qed.

  (** The property, over every action sequence (= every write list, every read-buffer-size list,
      every availability schedule, with the caller free to scribble on its buffer at any time). *)
  Theorem lossless (l : list action) (p : pipe) :
    run early true pipe_init l = Some p ->
    is_prefix (returned p) (script_written l) /\
    returned p ++ carry_bytes p ++ queued p = script_written l /\
    (eof p = true -> returned p = script_written l /\ closed p = true).
  Proof.
    intros Hrun.
    pose proof (run_inv l _ _ Inv_init Hrun) as [Hfifo Hcopy Hnil Heof].
    pose proof (run_written l _ _ Hrun) as Hw; simpl in Hw.
    rewrite Hw in Hfifo.
    split; [eexists; symmetry; exact Hfifo|]. split; [exact Hfifo|].
    intros He. specialize (Heof He). destruct (Hnil Heof) as [Hq Hc].
    split; [|exact Hc].
    unfold carry_bytes, queued in Hfifo. rewrite Heof, Hq in Hfifo. simpl in Hfifo.
    now rewrite app_nil_r in Hfifo.
  Qed.

  (** Per-read clauses: never more than the buffer; progress unless blocked. *)
  Theorem read_bounded_progress (p p' : pipe) (o : nat) (intr : bool) :
    Inv p -> step early true p (ARead o intr) = Some p' ->
    lastn p' <= Z.of_nat o /\
    ((0 < o)%nat -> 0 < lastn p' \/ eof p' = true \/ intr = true \/
                    queue p' = tl (queue p) /\ (queue p <> [] \/ closed p = true)).
  Proof.
    intros HI Hs. simpl in Hs.
    destruct (read early (carry p) o (avail_of p) intr) as [buf' out e consumed|] eqn:Hr;
      [|discriminate].
    inversion Hs; subst p'; clear Hs; simpl.
    destruct (carry p) as [b|] eqn:Hc.
    - pose proof (read_spec b o _ intr _ _ _ _ Hr) as (Hlen & Hdata & He & Hprog).
      split; [unfold zlen; lia|]. intros Ho.
      destruct (Hprog Ho) as [Hne|[Hne|Hcons]].
      + left. destruct out; [congruence|unfold zlen; simpl; lia].
      + destruct e; [congruence|right; left; reflexivity|].
        right; right; left.
        (* EInterrupted is only produced when intr = true *)
        unfold read in Hr. destruct (early _ _ _); [inversion Hr|].
        destruct (0 <? _)%nat; [destruct (avail_of p); unfold refill in Hr; inversion Hr|].
        destruct intr; [reflexivity|]. destruct (avail_of p); unfold refill in Hr; inversion Hr.
      + subst consumed. right; right; right. split; [reflexivity|].
        unfold avail_of in Hdata.
        destruct (queue p); [|left; discriminate]. destruct (closed p); [right; reflexivity|contradiction].
    - simpl in Hr. inversion Hr; subst. split; [unfold zlen; simpl; lia|].
      intros _. right; left; reflexivity.
  Qed.

  (** Once the writer has closed and everything was handed out, the next read reports EOF. *)
  Theorem eof_after_close (p : pipe) (o : nat) :
    Inv p -> closed p = true -> queue p = [] -> carry_bytes p = [] -> (0 < o)%nat ->
    exists p', step early true p (ARead o false) = Some p' /\ eof p' = true /\ lastn p' = 0.
  Proof.
    intros HI Hcl Hq Hcb Ho. simpl. unfold avail_of. rewrite Hq, Hcl.
    destruct (carry p) as [b|] eqn:Hc.
    - unfold carry_bytes in Hcb; rewrite Hc in Hcb; subst b. unfold read. simpl.
      replace (Nat.min o 0) with 0%nat by lia. simpl.
      destruct (Hearly (Z.of_nat o) 0 0 ltac:(lia) ltac:(lia) ltac:(lia)) as [_ Ht].
      change (zlen (@nil byte)) with 0.
      destruct (early (Z.of_nat o) 0 0) eqn:He.
      + destruct (Ht eq_refl); lia.
      + eexists; split; [reflexivity|]. simpl. auto.
    - simpl. eexists; split; [reflexivity|]. simpl; auto.
  Qed.
End WithEarly.

(** An interrupted read returns exactly the bytes it copied and empties the carry only when it
    was already empty (the interrupt arm is reached only with nothing left to hand out). *)
Theorem interrupt_no_loss early (Hearly : early_ok early) (b : bytes) (o : nat) av buf' out c :
  read early (Some b) o av true = RRet buf' out EInterrupted c ->
  b = [] /\ out = [] /\ buf' = Some [] /\ c = false.
Proof.
  intros Hr. pose proof (read_spec early Hearly b o av true _ _ _ _ Hr) as (_ & Hdata & _ & _).
  unfold read in Hr.
  destruct (early _ _ _); [inversion Hr|].
  destruct (0 <? Nat.min o (length b))%nat eqn:Hn;
    [destruct av; unfold refill in Hr; inversion Hr|].
  inversion Hr; subst. 
  assert (Hb : b = firstn (Nat.min o (length b)) b ++ []) by (destruct av; tauto).
  rewrite app_nil_r in Hb.
  assert (Nat.min o (length b) = 0)%nat by lia.
  rewrite H in Hb. simpl in Hb. subst b. simpl.
  repeat split. now rewrite firstn_nil.
Qed.

(** Refutation of the pre-repair test [len(out) <= len(c.buffer)] (finding F1): kept as the
    regression witness. Writes "abcdefgh","ijk" (as 1..8 and 9..11), 3-byte reads. *)
Definition early_pinned (o n bl : Z) : bool := o <=? bl.

Definition f1_script : list action :=
  [AWrite [1;2;3;4;5;6;7;8]; AWrite [9;10;11]; AClose;
   ARead 3 false; ARead 3 false; ARead 3 false; ARead 3 false].

Theorem lossless_refuted_pinned :
  exists l p, run early_pinned true pipe_init l = Some p /\
              ~ is_prefix (returned p) (script_written l).
Proof.
  exists f1_script. eexists. split; [vm_compute; reflexivity|].
  intros [r Hr]. vm_compute in Hr. discriminate.
Qed.

(** If Write sent the caller's buffer itself, a later overwrite would change what is read. *)
Theorem no_alias_needs_copy :
  exists l p, run (fun o n _ => n =? o) false pipe_init l = Some p /\
              returned p <> script_written l.
Proof.
  exists [AWrite [1;2;3]; AMutate [7;7;7]; ARead 3 false]. eexists.
  split; [vm_compute; reflexivity|]. vm_compute. discriminate.
Qed.

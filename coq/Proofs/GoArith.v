(** Facts about the Go integer model of Prelude (wrap64, godiv) and list slicing. *)
From TP Require Import Model.Prelude.
From Coq Require Import ZifyBool ZifyNat.

Lemma wrap64_id z : - two63 <= z < two63 -> wrap64 z = z.
Proof.
  intros H. unfold wrap64, two64, two63 in *.
  rewrite Z.mod_small by lia. lia.
Qed.

Lemma wrap64_range z : - two63 <= wrap64 z < two63.
Proof.
  unfold wrap64, two64, two63.
  pose proof (Z.mod_pos_bound (z + 9223372036854775808) 18446744073709551616 ltac:(lia)). lia.
Qed.

Lemma godiv_nonneg a b : 0 <= a -> 0 < b -> 0 <= godiv a b <= a.
Proof.
  intros Ha Hb. unfold godiv. rewrite Z.quot_div_nonneg by lia.
  split; [apply Z.div_pos; lia|]. apply Z.div_le_upper_bound; nia.
Qed.

Lemma godiv_div a b : 0 <= a -> 0 < b -> godiv a b = a / b.
Proof. intros. unfold godiv. apply Z.quot_div_nonneg; lia. Qed.

Lemma zlen_nonneg {A} (l : list A) : 0 <= zlen l.
Proof. unfold zlen; lia. Qed.

Lemma zlen_app {A} (a b : list A) : zlen (a ++ b) = zlen a + zlen b.
Proof. unfold zlen. rewrite app_length. lia. Qed.

Lemma zlen_nil_iff {A} (l : list A) : zlen l = 0 <-> l = [].
Proof. unfold zlen; destruct l; simpl; split; intros; try reflexivity; try lia; discriminate. Qed.

Lemma zlen_firstn {A} (l : list A) (n : nat) : zlen (firstn n l) = Z.min (Z.of_nat n) (zlen l).
Proof. unfold zlen. rewrite firstn_length. lia. Qed.

Lemma zlen_skipn {A} (l : list A) (n : nat) : zlen (skipn n l) = Z.max 0 (zlen l - Z.of_nat n).
Proof. unfold zlen. rewrite skipn_length. lia. Qed.

Lemma slice_to_from {A} (l : list A) (r : Z) : slice_to l r ++ slice_from l r = l.
Proof. unfold slice_to, slice_from. apply firstn_skipn. Qed.

Lemma zlen_slice_to {A} (l : list A) (r : Z) : 0 <= r <= zlen l -> zlen (slice_to l r) = r.
Proof. intros H. unfold slice_to. rewrite zlen_firstn. lia. Qed.

Lemma zlen_slice_from {A} (l : list A) (r : Z) : 0 <= r <= zlen l -> zlen (slice_from l r) = zlen l - r.
Proof. intros H. unfold slice_from. rewrite zlen_skipn. lia. Qed.

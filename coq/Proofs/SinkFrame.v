(** Who can write to the receiver: only the LAST stub's own send (and the reader, on a link without
    stubs). Every other action of every schedule leaves the delivered bytes untouched. With
    WallProofs: once the last stub is dead (a removed timeout toxic), nothing is delivered any more,
    on any schedule - the stream is not resumed. *)
From TP Require Import Model.Prelude Extracted Model.Toxics Model.Timed Model.Reconf
     Proofs.GoArith Proofs.LinkStatic Proofs.LinkFrame Proofs.WallProofs.
From Coq Require Import ZifyBool ZifyNat.

Lemma books_sink a b : books_of a = books_of b -> sink_bytes a = sink_bytes b.
Proof. unfold books_of. intros H. inversion H. reflexivity. Qed.

Lemma offer_sink l j c l1 : offer l j c = Some l1 -> nth_error (l_stubs l) j <> None -> sink_bytes l1 = sink_bytes l.
Proof.
  intros Ho Hn. destruct (offer_frame _ _ _ _ Ho) as [_ [Hb|[Hnone _]]]; [|contradiction].
  exact (books_sink _ _ Hb).
Qed.

Theorem sink_writer l a l' :
  sched_step l a = Some l' ->
  sink_bytes l' = sink_bytes l \/
  (exists j, a = AMove j /\ S j = length (l_stubs l)) \/ (a = AReader /\ l_stubs l = []).
Proof.
  intros H. destruct a as [i|i|i| |t]; simpl in H.
  - unfold stub_move in H.
    destruct (nth_error (l_stubs l) i) as [s|] eqn:Hn; [|discriminate].
    destruct (mode_of (s_st s)) as [inp intr tm|c|c dl| | |]; try discriminate.
    + left. destruct inp; [|discriminate].
      assert (Hg : forall c q, sink_bytes (stub_input l i s c q) = sink_bytes l).
      { intros c q. destruct (stub_input_frame l i s c q Hn) as [_ Hb]. unfold books_of in Hb. inversion Hb. reflexivity. }
      destruct (s_inq s); [destruct (s_in_closed s); [|discriminate]|]; inversion H; subst; apply Hg.
    + destruct (offer l (S i) c) as [l1|] eqn:Ho; [|discriminate].
      destruct (nth_error (l_stubs l1) i) as [s1|] eqn:Hn1; [|discriminate]. inversion H; subst.
      destruct (stub_sent_frame l1 i s1 Hn1) as [_ Hb]. pose proof (books_sink _ _ Hb) as Hs.
      destruct (nth_error (l_stubs l) (S i)) eqn:Hc.
      * left. rewrite Hs. apply (offer_sink _ _ _ _ Ho). congruence.
      * right. left. exists i. split; [reflexivity|]. apply nth_error_None in Hc.
        assert (i < length (l_stubs l))%nat by (apply nth_error_Some; congruence). lia.
    + destruct (offer l (S i) c) as [l1|] eqn:Ho; [|discriminate].
      destruct (nth_error (l_stubs l1) i) as [s1|] eqn:Hn1; [|discriminate]. inversion H; subst.
      destruct (stub_sent_frame l1 i s1 Hn1) as [_ Hb]. pose proof (books_sink _ _ Hb) as Hs.
      destruct (nth_error (l_stubs l) (S i)) eqn:Hc.
      * left. rewrite Hs. apply (offer_sink _ _ _ _ Ho). congruence.
      * right. left. exists i. split; [reflexivity|]. apply nth_error_None in Hc.
        assert (i < length (l_stubs l))%nat by (apply nth_error_Some; congruence). lia.
    + left. inversion H; subst.
      destruct (close_downstream_frame (upd_stub l i (mkStub (s_tx s) (s_eff s) Exited (s_ps s) (s_inq s) (s_cap s) (s_in_closed s) true)) (S i)) as [_ Hb].
      rewrite (books_sink _ _ Hb). reflexivity.
  - left. unfold stub_timer in H.
    destruct (nth_error (l_stubs l) i) as [s|]; [|discriminate]. destruct (mode_of (s_st s)); try discriminate.
    destruct (timer_due _ _); [|discriminate]. inversion H; subst. reflexivity.
  - left. unfold stub_send_timeout in H.
    destruct (nth_error (l_stubs l) i) as [s|]; [|discriminate]. destruct (mode_of (s_st s)); try discriminate.
    destruct (_ <=? _); [|discriminate]. inversion H; subst. reflexivity.
  - unfold try_reader in H.
    destruct (l_rd l) as [|c|]; [| |discriminate].
    + left. destruct (l_rest l).
      * destruct (l_src l) as [|[t d|t] src']; [discriminate| |].
        -- destruct (t <=? l_now l); [|discriminate]. destruct d; inversion H; subst; reflexivity.
        -- destruct (t <=? l_now l); [|discriminate]. inversion H; subst.
           destruct (close_downstream_frame (set_rd l RClosed src' [] (l_rx l)) 0) as [_ Hb].
           rewrite (books_sink _ _ Hb). reflexivity.
      * inversion H; subst. reflexivity.
    + destruct (offer l 0 c) as [l1|] eqn:Ho; [|discriminate]. inversion H; subst.
      destruct (l_stubs l) as [|s ss] eqn:Hss.
      * right. right. auto.
      * left. change (sink_bytes (set_rd l1 RIdle (l_src l1) (l_rest l1) (l_rx l1))) with (sink_bytes l1).
        apply (offer_sink _ _ _ _ Ho). rewrite Hss. discriminate.
  - left. destruct (l_now l <=? t); [|discriminate]. inversion H; subst. reflexivity.
Qed.

(** once the last stub is dead, the receiver gets nothing more - on every schedule *)
Theorem dead_last_stub_freezes_sink sigma : forall l l' i,
  wall l i -> S i = length (l_stubs l) -> sched_run l sigma = Some l' ->
  sink_bytes l' = sink_bytes l /\ wall l' i /\ S i = length (l_stubs l').
Proof.
  induction sigma as [|a sigma IH]; intros l l' i Hw Hlast Hrun; simpl in Hrun; [inversion Hrun; subst; auto|].
  destruct (sched_step l a) as [l1|] eqn:Hs; [|discriminate].
  pose proof (wall_step _ _ _ _ Hs Hw) as Hw1.
  assert (Hlen : length (l_stubs l1) = length (l_stubs l)).
  { pose proof (step_idents _ _ _ Hs) as Hid. unfold idents in Hid.
    rewrite <- (map_length ident (l_stubs l1)), Hid, map_length. reflexivity. }
  assert (Hsink : sink_bytes l1 = sink_bytes l).
  { destruct (sink_writer _ _ _ Hs) as [E|[(j & -> & Hj)|[_ Hnil]]]; [exact E| |].
    - assert (j = i) by lia. subst j. destruct (wall_silent_data l i Hw) as [Hm _]. rewrite Hm in Hs. discriminate.
    - rewrite Hnil in Hlast. simpl in Hlast. lia. }
  destruct (IH l1 l' i Hw1 ltac:(lia) Hrun) as (E & Hw' & Hl'). split; [congruence|]. split; [exact Hw'|exact Hl'].
Qed.

Lemma set_nth_length {A} (l : list A) : forall i x, length (set_nth i x l) = length l.
Proof. induction l as [|y l IH]; intros [|i] x; simpl; auto. Qed.

Lemma close_downstream_length l j : length (l_stubs (close_downstream l j)) = length (l_stubs l).
Proof. unfold close_downstream. destruct (nth_error (l_stubs l) j); [|reflexivity]. unfold upd_stub. cbn [l_stubs]. apply set_nth_length. Qed.

(** removing a timeout toxic that is the last of its chain (where AddToxic puts it): from any live
    state of its stage, after the removal the receiver is closed and gets nothing more, whatever is
    parked upstream or still arrives, on every schedule *)
Theorem removed_last_timeout_delivers_nothing l i s acc tmr :
  nth_error (l_stubs l) i = Some s -> s_st s = Idle acc tmr -> s_closed s = false -> S i = length (l_stubs l) ->
  exists l1 l2,
    ctl_step l (CInterrupt i) = Some l1 /\ ctl_step l1 (CSever i) = Some l2 /\
    l_sink_closed l2 <> None /\
    forall sigma l3, sched_run l2 sigma = Some l3 -> sink_bytes l3 = sink_bytes l.
Proof.
  intros Hn Hst Hcl Hlast.
  destruct (timeout_removal l i s acc tmr Hn Hst Hcl) as (l1 & l2 & H1 & H2 & Hw & Hb & Hc & _).
  exists l1, l2. split; [exact H1|]. split; [exact H2|].
  assert (Hlen2 : S i = length (l_stubs l2)).
  { cbn [ctl_step] in H1. rewrite Hn in H1. destruct (listens_interrupt s); [|discriminate]. inversion H1; subst l1.
    cbn [ctl_step] in H2. destruct (nth_error (l_stubs (upd_stub l i _)) i) as [s1|]; [|discriminate].
    destruct (is_exited s1 && negb (s_closed s1)); [|discriminate]. inversion H2; subst l2.
    rewrite close_downstream_length. unfold upd_stub. cbn [l_stubs]. rewrite !set_nth_length. exact Hlast. }
  split.
  - assert (Hnone : nth_error (l_stubs l2) (S i) = None) by (apply nth_error_None; lia). rewrite Hnone in Hc. exact Hc.
  - intros sigma l3 Hrun. destruct (dead_last_stub_freezes_sink sigma l2 l3 i Hw Hlen2 Hrun) as (E & _ & _). congruence.
Qed.

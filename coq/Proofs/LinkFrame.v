(** Frame facts over all schedules: a link action never changes which toxic (and which toxicity
    decision) a stub runs, nor channel capacities (C01_frame, C14_whole_connection); the two byte
    counters of a link are exactly the bytes taken from the source / written to the sink (C20). *)
From TP Require Import Model.Prelude Extracted Model.Toxics Model.Timed Proofs.GoArith Proofs.LinkStatic.
From Coq Require Import ZifyBool ZifyNat.

Definition ident (s : stub) : toxic * bool * Z := (s_tx s, s_eff s, s_cap s).
Definition idents (l : link) := map ident (l_stubs l).

Lemma map_set_nth {A B} (f : A -> B) (l : list A) i x s :
  nth_error l i = Some s -> f x = f s -> map f (set_nth i x l) = map f l.
Proof.
  revert i; induction l as [|y l IH]; intros [|i] Hn Hf; simpl in *; try discriminate.
  - inversion Hn; subst. now rewrite Hf.
  - f_equal. eapply IH; eassumption.
Qed.

Lemma map_set_nth_none {A B} (f : A -> B) (l : list A) i x :
  nth_error l i = None -> map f (set_nth i x l) = map f l.
Proof.
  revert i; induction l as [|y l IH]; intros [|i] Hn; simpl in *; try discriminate; auto.
  f_equal. now apply IH.
Qed.

(** the observable projection of the bookkeeping fields *)
Record books := mkBooks { b_tx : Z; b_sink : bytes; b_rx : Z; b_rd : rstate; b_rest : bytes; b_src : list src_ev }.
Definition books_of (l : link) : books :=
  mkBooks (l_tx l) (sink_bytes l) (l_rx l) (l_rd l) (l_rest l) (l_src l).

Lemma stub_input_frame l i s c q :
  nth_error (l_stubs l) i = Some s ->
  idents (stub_input l i s c q) = idents l /\ books_of (stub_input l i s c q) = books_of l.
Proof.
  intros Hn. unfold stub_input. destruct (on_input _ _ _ _ _ _) as [st' ds].
  split; [|reflexivity]. unfold idents; simpl. eapply map_set_nth; [exact Hn|reflexivity].
Qed.

Lemma stub_sent_frame l i s :
  nth_error (l_stubs l) i = Some s ->
  idents (stub_sent l i s) = idents l /\ books_of (stub_sent l i s) = books_of l.
Proof.
  intros Hn. unfold stub_sent. destruct (on_sent _ _ _ _) as [st' ps'].
  split; [|reflexivity]. unfold idents, upd_stub; simpl. eapply map_set_nth; [exact Hn|reflexivity].
Qed.

Lemma close_downstream_frame l j :
  idents (close_downstream l j) = idents l /\ books_of (close_downstream l j) = books_of l.
Proof.
  unfold close_downstream. destruct (nth_error (l_stubs l) j) as [t|] eqn:Hn; [|split; reflexivity].
  split; [|reflexivity]. unfold idents, upd_stub; simpl. eapply map_set_nth; [exact Hn|reflexivity].
Qed.

Lemma offer_frame l j c l1 :
  offer l j c = Some l1 ->
  idents l1 = idents l /\
  (books_of l1 = books_of l \/
   nth_error (l_stubs l) j = None /\
   books_of l1 = mkBooks (l_tx l + zlen (cdata c)) (sink_bytes l ++ cdata c) (l_rx l) (l_rd l) (l_rest l) (l_src l)).
Proof.
  unfold offer. destruct (nth_error (l_stubs l) j) as [t|] eqn:Hn.
  - destruct (0 <? s_cap t).
    + destruct (zlen (s_inq t) <? s_cap t); [|discriminate]. intros H; inversion H; subst.
      split; [|left; reflexivity]. unfold idents, upd_stub; simpl. eapply map_set_nth; [exact Hn|reflexivity].
    + destruct (listens_input t && _); [|discriminate]. intros H; inversion H; subst.
      destruct (stub_input_frame l j t (Some c) (s_inq t) Hn) as [H1 H2]. auto.
  - destruct (l_wr_ready l <=? l_now l); [|discriminate]. intros H; inversion H; subst.
    unfold deliver_sink. destruct (zlen (cdata c) =? 0) eqn:Hz.
    + split; [reflexivity|]. right. split; [reflexivity|].
      assert (Hc : cdata c = []) by (apply zlen_nil_iff; lia).
      unfold books_of. rewrite Hc. unfold zlen; simpl. rewrite app_nil_r. f_equal. lia.
    + split; [reflexivity|]. right. split; [reflexivity|].
      unfold books_of, sink_bytes; simpl. rewrite map_app, concat_app. simpl. now rewrite app_nil_r.
Qed.

(** toxics, toxicity decisions and capacities are never changed by a link action *)
Theorem step_idents l a l' : sched_step l a = Some l' -> idents l' = idents l.
Proof.
  intros H. destruct a as [i|i|i| |t]; simpl in H.
  - unfold stub_move in H.
    destruct (nth_error (l_stubs l) i) as [s|] eqn:Hn; [|discriminate].
    destruct (mode_of (s_st s)) as [inp intr tm|c|c dl| | |]; try discriminate.
    + destruct inp; [|discriminate].
      destruct (s_inq s); [destruct (s_in_closed s); [|discriminate]|];
        inversion H; subst; apply stub_input_frame; exact Hn.
    + destruct (offer l (S i) c) as [l1|] eqn:Ho; [|discriminate].
      destruct (offer_frame _ _ _ _ Ho) as [Hi _].
      destruct (nth_error (l_stubs l1) i) as [s1|] eqn:Hn1; [|discriminate].
      inversion H; subst. destruct (stub_sent_frame l1 i s1 Hn1) as [H1 _]. congruence.
    + destruct (offer l (S i) c) as [l1|] eqn:Ho; [|discriminate].
      destruct (offer_frame _ _ _ _ Ho) as [Hi _].
      destruct (nth_error (l_stubs l1) i) as [s1|] eqn:Hn1; [|discriminate].
      inversion H; subst. destruct (stub_sent_frame l1 i s1 Hn1) as [H1 _]. congruence.
    + inversion H; subst. destruct (close_downstream_frame (upd_stub l i
         (mkStub (s_tx s) (s_eff s) Exited (s_ps s) (s_inq s) (s_cap s) (s_in_closed s) true)) (S i)) as [H1 _].
      rewrite H1. unfold idents, upd_stub; simpl. eapply map_set_nth; [exact Hn|reflexivity].
  - unfold stub_timer in H.
    destruct (nth_error (l_stubs l) i) as [s|] eqn:Hn; [|discriminate].
    destruct (mode_of (s_st s)); try discriminate.
    destruct (timer_due _ _); [|discriminate]. inversion H; subst.
    unfold idents, upd_stub; simpl. eapply map_set_nth; [exact Hn|reflexivity].
  - unfold stub_send_timeout in H.
    destruct (nth_error (l_stubs l) i) as [s|] eqn:Hn; [|discriminate].
    destruct (mode_of (s_st s)); try discriminate.
    destruct (_ <=? _); [|discriminate]. inversion H; subst.
    unfold idents, upd_stub; simpl. eapply map_set_nth; [exact Hn|reflexivity].
  - unfold try_reader in H.
    destruct (l_rd l) as [|c|]; [| |discriminate].
    + destruct (l_rest l).
      * destruct (l_src l) as [|[t d|t] src']; [discriminate| |].
        -- destruct (t <=? l_now l); [|discriminate]. destruct d; inversion H; subst; reflexivity.
        -- destruct (t <=? l_now l); [|discriminate]. inversion H; subst.
           destruct (close_downstream_frame (set_rd l RClosed src' [] (l_rx l)) 0) as [H1 _]. rewrite H1. reflexivity.
      * inversion H; subst. reflexivity.
    + destruct (offer l 0 c) as [l1|] eqn:Ho; [|discriminate]. inversion H; subst.
      destruct (offer_frame _ _ _ _ Ho) as [Hi _]. unfold idents in *; simpl. exact Hi.
  - destruct (l_now l <=? t); [|discriminate]. inversion H; subst. reflexivity.
Qed.

Theorem run_idents sigma : forall l l', sched_run l sigma = Some l' -> idents l' = idents l.
Proof.
  induction sigma as [|a sigma IH]; intros l l' H; simpl in H; [inversion H; reflexivity|].
  destruct (sched_step l a) as [l1|] eqn:Hs; [|discriminate].
  rewrite (IH _ _ H). eapply step_idents; exact Hs.
Qed.

(** ---- the counters *)
Definition unread (l : link) : bytes :=
  match l_rd l with RClosed => [] | _ => l_rest l ++ (fix sb (src : list src_ev) : bytes :=
     match src with [] => [] | SWrite _ d :: r => d ++ sb r | SClose _ :: _ => [] end) (l_src l) end.

Definition counters_ok (n : Z) (l : link) : Prop :=
  l_tx l = zlen (sink_bytes l) /\ l_rx l + zlen (unread l) = n.

Lemma books_counters n l l1 : books_of l1 = books_of l -> counters_ok n l -> counters_ok n l1.
Proof.
  unfold books_of, counters_ok, unread. intros H. inversion H as [[H1 H2 H3 H4 H5 H6]].
  rewrite H1, H2, H3, H4, H5, H6. auto.
Qed.

Lemma take_len (d : bytes) :
  Z.of_nat (Z.to_nat (Z.min read_buf_size (zlen d))) + zlen (skipn (Z.to_nat (Z.min read_buf_size (zlen d))) d) = zlen d.
Proof. rewrite zlen_skipn. pose proof (zlen_nonneg d). unfold read_buf_size. lia. Qed.

Theorem step_counters n l a l' : sched_step l a = Some l' -> counters_ok n l -> counters_ok n l'.
Proof.
  intros H Hc. destruct a as [i|i|i| |t]; simpl in H.
  - unfold stub_move in H.
    destruct (nth_error (l_stubs l) i) as [s|] eqn:Hn; [|discriminate].
    destruct (mode_of (s_st s)) as [inp intr tm|c|c dl| | |]; try discriminate.
    + destruct inp; [|discriminate].
      destruct (s_inq s); [destruct (s_in_closed s); [|discriminate]|];
        inversion H; subst; (eapply books_counters; [apply stub_input_frame; exact Hn|exact Hc]).
    + destruct (offer l (S i) c) as [l1|] eqn:Ho; [|discriminate].
      destruct (nth_error (l_stubs l1) i) as [s1|] eqn:Hn1; [|discriminate].
      inversion H; subst. eapply books_counters; [apply stub_sent_frame; exact Hn1|].
      destruct (offer_frame _ _ _ _ Ho) as [_ [Hb|[_ Hb]]]; [eapply books_counters; eassumption|].
      unfold counters_ok, unread in *. inversion Hb as [[H1 H2 H3 H4 H5 H6]].
      rewrite H1, H2, H3, H4, H5, H6. destruct Hc as [Hc1 Hc2]. rewrite zlen_app. split; [lia|exact Hc2].
    + destruct (offer l (S i) c) as [l1|] eqn:Ho; [|discriminate].
      destruct (nth_error (l_stubs l1) i) as [s1|] eqn:Hn1; [|discriminate].
      inversion H; subst. eapply books_counters; [apply stub_sent_frame; exact Hn1|].
      destruct (offer_frame _ _ _ _ Ho) as [_ [Hb|[_ Hb]]]; [eapply books_counters; eassumption|].
      unfold counters_ok, unread in *. inversion Hb as [[H1 H2 H3 H4 H5 H6]].
      rewrite H1, H2, H3, H4, H5, H6. destruct Hc as [Hc1 Hc2]. rewrite zlen_app. split; [lia|exact Hc2].
    + inversion H; subst. eapply books_counters; [apply close_downstream_frame|]. exact Hc.
  - unfold stub_timer in H.
    destruct (nth_error (l_stubs l) i) as [s|] eqn:Hn; [|discriminate].
    destruct (mode_of (s_st s)); try discriminate.
    destruct (timer_due _ _); [|discriminate]. inversion H; subst. exact Hc.
  - unfold stub_send_timeout in H.
    destruct (nth_error (l_stubs l) i) as [s|] eqn:Hn; [|discriminate].
    destruct (mode_of (s_st s)); try discriminate.
    destruct (_ <=? _); [|discriminate]. inversion H; subst. exact Hc.
  - unfold try_reader in H. unfold counters_ok, unread in *.
    destruct (l_rd l) as [|c|] eqn:Hrd; [| |discriminate].
    + destruct (l_rest l) as [|b rest] eqn:Hrest.
      * destruct (l_src l) as [|[t d|t] src'] eqn:Hsrc; [discriminate| |].
        -- destruct (t <=? l_now l); [|discriminate].
           destruct d as [|b d]; inversion H; subst; simpl; [exact Hc|].
           destruct Hc as [Hc1 Hc2]. split; [exact Hc1|].
           remember (b :: d) as dd. unfold take_piece; cbn [l_rx l_rd l_rest l_src set_rd].
           simpl app in Hc2. rewrite zlen_app in *. pose proof (take_len dd). lia.
        -- destruct (t <=? l_now l); [|discriminate]. inversion H; subst.
           destruct (close_downstream_frame (set_rd l RClosed src' [] (l_rx l)) 0) as [_ Hb].
           change (counters_ok n (close_downstream (set_rd l RClosed src' [] (l_rx l)) 0)).
           eapply books_counters; [exact Hb|].
           unfold counters_ok, unread; simpl. destruct Hc as [Hc1 Hc2]. simpl in Hc2. auto.
      * inversion H; subst. remember (b :: rest) as dd. unfold take_piece; cbn [l_rx l_rd l_rest l_src l_tx set_rd].
        destruct Hc as [Hc1 Hc2]. split; [exact Hc1|].
        rewrite zlen_app in *. pose proof (take_len dd). lia.
    + destruct (offer l 0 c) as [l1|] eqn:Ho; [|discriminate]. inversion H; subst. simpl.
      destruct (offer_frame _ _ _ _ Ho) as [_ [Hb|[_ Hb]]]; inversion Hb as [[H1 H2 H3 H4 H5 H6]];
        unfold sink_bytes in *; simpl; rewrite ?H1, ?H2, ?H3, ?H5, ?H6; rewrite Hrd in *;
        destruct Hc as [Hc1 Hc2]; rewrite ?zlen_app in *; split; try lia; try exact Hc2; try exact Hc1.
  - destruct (l_now l <=? t); [|discriminate]. inversion H; subst. exact Hc.
Qed.

Theorem run_counters n sigma : forall l l', sched_run l sigma = Some l' -> counters_ok n l -> counters_ok n l'.
Proof.
  induction sigma as [|a sigma IH]; intros l l' H Hc; simpl in H; [inversion H; subst; exact Hc|].
  destruct (sched_step l a) as [l1|] eqn:Hs; [|discriminate].
  eapply IH; [exact H|]. eapply step_counters; eassumption.
Qed.

(** Lock order: if a ranking orders every edge of the "requested while held" relation, then in every
    state whose threads follow that relation the waits-for graph has no cycle and every chain of
    waiting threads ends, after at most [bound] steps, at a thread that is not waiting for a lock. *)
From Coq Require Import String List Arith Bool Lia Relations.
From TP Require Import Model.LockOrder.
Import ListNotations.

Definition holds (st : state) (j : nat) (l : lock) : Prop :=
  exists th, nth_error st j = Some th /\ In l (held th).

Definition waiting (st : state) (i : nat) : Prop :=
  exists th l, nth_error st i = Some th /\ want th = Some l.

Definition waits_for (st : state) (i j : nat) : Prop :=
  exists th l, nth_error st i = Some th /\ want th = Some l /\ i <> j /\ holds st j l.

Definition follows (es : list edge) (st : state) : Prop :=
  forall th l h, In th st -> want th = Some l -> In h (held th) -> In (fst h, fst l) es.

Definition wrank (t : rank_tbl) (st : state) (i : nat) : nat :=
  match nth_error st i with
  | Some th => match want th with Some l => lookup t (fst l) | None => 0 end
  | None => 0
  end.

Lemma ranks_ok_edge t es a b : ranks_ok t es = true -> In (a, b) es -> lookup t a < lookup t b.
Proof.
  unfold ranks_ok. intros H Hin. rewrite forallb_forall in H. specialize (H _ Hin). cbn in H.
  apply Nat.ltb_lt in H. exact H.
Qed.

Lemma waits_step t es st i j :
  ranks_ok t es = true -> follows es st -> waits_for st i j -> waiting st j ->
  wrank t st i < wrank t st j.
Proof.
  intros Hr Hf (thi & l & Hi & Hwi & _ & (thj & Hj & Hin)) (thj' & l' & Hj' & Hwj).
  rewrite Hj in Hj'. injection Hj' as <-.
  unfold wrank. rewrite Hi, Hwi, Hj, Hwj.
  apply (ranks_ok_edge t es); [exact Hr|].
  apply (Hf thj l' l); [eapply nth_error_In; exact Hj | exact Hwj | exact Hin].
Qed.

Lemma waits_for_waiting st i j : waits_for st i j -> waiting st i.
Proof. intros (th & l & Hi & Hw & _). exists th, l. split; assumption. Qed.

Lemma chain_rank t es st i j :
  ranks_ok t es = true -> follows es st ->
  clos_trans_n1 nat (waits_for st) i j -> waiting st j -> wrank t st i < wrank t st j.
Proof.
  intros Hr Hf Hc. induction Hc as [j Hw | j k Hw Hc IH]; intros Hwj.
  - eapply waits_step; eassumption.
  - assert (Hj : waiting st j) by (eapply waits_for_waiting; exact Hw).
    specialize (IH Hj). pose proof (waits_step t es st j k Hr Hf Hw Hwj). lia.
Qed.

Theorem no_wait_cycle t es st :
  ranks_ok t es = true -> follows es st -> forall i, ~ clos_trans nat (waits_for st) i i.
Proof.
  intros Hr Hf i Hc.
  assert (Hwi : waiting st i).
  { pose proof (clos_trans_t1n _ _ _ _ Hc) as Hc1. inversion Hc1 as [y Hw | y z Hw _]; subst; eapply waits_for_waiting; exact Hw. }
  apply clos_trans_tn1 in Hc.
  pose proof (chain_rank t es st i i Hr Hf Hc Hwi). lia.
Qed.

(** the executable chase *)
Lemma lock_eqb_eq a b : lock_eqb a b = true -> a = b.
Proof.
  destruct a as [ca ia], b as [cb ib]. unfold lock_eqb. cbn. intros H.
  apply andb_true_iff in H. destruct H as [H1 H2].
  apply String.eqb_eq in H1. apply Nat.eqb_eq in H2. subst. reflexivity.
Qed.

Lemma holdsb_In th l : holdsb th l = true -> In l (held th).
Proof.
  unfold holdsb. intros H. apply existsb_exists in H. destruct H as (x & Hin & He).
  apply lock_eqb_eq in He. subst. exact Hin.
Qed.

Lemma holder_from_sound st k i l j :
  holder_from st k i l = Some j ->
  j <> i /\ k <= j /\ exists th, nth_error st (j - k) = Some th /\ In l (held th).
Proof.
  revert k. induction st as [|th st IH]; intros k H; cbn in H; [discriminate|].
  destruct (negb (Nat.eqb k i) && holdsb th l) eqn:E.
  - injection H as <-. apply andb_true_iff in E. destruct E as [E1 E2].
    apply negb_true_iff, Nat.eqb_neq in E1. split; [exact E1|]. split; [lia|].
    exists th. rewrite Nat.sub_diag. split; [reflexivity | apply holdsb_In; exact E2].
  - apply IH in H. destruct H as (Hne & Hle & th' & Hn & Hin). split; [exact Hne|]. split; [lia|].
    exists th'. split; [|exact Hin]. replace (j - k) with (S (j - S k)) by lia. exact Hn.
Qed.

Lemma blocker_sound st i j : blocker st i = Some j -> waits_for st i j.
Proof.
  unfold blocker. destruct (nth_error st i) as [th|] eqn:Hi; [|discriminate].
  destruct (want th) as [l|] eqn:Hw; [|discriminate]. intros H.
  apply holder_from_sound in H. destruct H as (Hne & _ & th' & Hn & Hin).
  rewrite Nat.sub_0_r in Hn.
  exists th, l. repeat split; try assumption; [congruence|]. exists th'. split; assumption.
Qed.

Lemma chase_fix n st j : blocker st j = None -> chase n st j = j.
Proof. intros H. destruct n; cbn; [reflexivity|]. rewrite H. reflexivity. Qed.

Lemma lookup_lt_bound t c : lookup t c < bound t.
Proof.
  unfold bound. induction t as [|[k v] t IH]; cbn [lookup map snd list_max fold_right]; [lia|].
  change (fold_right Nat.max 0 (map snd t)) with (list_max (map snd t)).
  destruct (String.eqb k c); lia.
Qed.

Lemma wrank_lt_bound t st i : wrank t st i < bound t.
Proof.
  unfold wrank. destruct (nth_error st i) as [th|]; [destruct (want th)|]; try apply lookup_lt_bound;
  unfold bound; lia.
Qed.

Lemma chase_ends_n t es st :
  ranks_ok t es = true -> follows es st ->
  forall n i, bound t - wrank t st i <= n -> blocker st (chase n st i) = None.
Proof.
  intros Hr Hf n. induction n as [|n IH]; intros i Hb.
  - pose proof (wrank_lt_bound t st i). lia.
  - cbn. destruct (blocker st i) as [j|] eqn:Hbl; [|exact Hbl].
    pose proof (blocker_sound _ _ _ Hbl) as Hw.
    destruct (blocker st j) as [k|] eqn:Hbj.
    + assert (Hwj : waiting st j) by (eapply waits_for_waiting; apply blocker_sound; exact Hbj).
      pose proof (waits_step t es st i j Hr Hf Hw Hwj). apply IH. lia.
    + rewrite chase_fix by exact Hbj. exact Hbj.
Qed.

Theorem chase_ends t es st i :
  ranks_ok t es = true -> follows es st -> blocker st (chase (bound t) st i) = None.
Proof. intros Hr Hf. eapply chase_ends_n; try eassumption. lia. Qed.

Lemma followsb_follows es st : followsb es st = true -> follows es st.
Proof.
  unfold followsb, follows. intros H th l h Hin Hw Hh.
  rewrite forallb_forall in H. specialize (H _ Hin). rewrite Hw in H.
  rewrite forallb_forall in H. specialize (H _ Hh).
  apply existsb_exists in H. destruct H as ([a b] & He & Hab). cbn in Hab.
  apply andb_true_iff in Hab. destruct Hab as [Ha Hb].
  apply String.eqb_eq in Ha. apply String.eqb_eq in Hb. subst. exact He.
Qed.

(** the two statements for an edge list that passes the executable check *)
Theorem ordered_locks_no_cycle es st :
  lock_order_ok es = true -> follows es st -> forall i, ~ clos_trans nat (waits_for st) i i.
Proof. intros H. apply no_wait_cycle with (t := compute_ranks es). exact H. Qed.

Theorem ordered_locks_chains_end es st i :
  lock_order_ok es = true -> follows es st ->
  blocker st (chase (bound (compute_ranks es)) st i) = None.
Proof. intros H Hf. eapply chase_ends; eassumption. Qed.

(** the relation regenerated from the working tree *)
From TP Require Import Extracted.

Lemma extracted_lock_order_ok : lock_order_ok lock_edges = true.
Proof. vm_compute. reflexivity. Qed.

Theorem extracted_no_cycle st :
  follows lock_edges st -> forall i, ~ clos_trans nat (waits_for st) i i.
Proof. apply ordered_locks_no_cycle. exact extracted_lock_order_ok. Qed.

Theorem extracted_chains_end st i :
  follows lock_edges st -> blocker st (chase (bound (compute_ranks lock_edges)) st i) = None.
Proof. apply ordered_locks_chains_end. exact extracted_lock_order_ok. Qed.

(** non-vacuity: a stop request (holds the proxy's lock, waits for the accept loop's tomb), the goroutine that
    ends that tomb (waits for the accept tomb), the accept loop (holds the accept tomb, wants the toxic
    collection's lock for StartLink) and a toxic request that holds that lock and runs *)
Definition stop_state : state :=
  [ {| held := [("Proxy", 0)]; want := Some ("tomb", 0) |};
    {| held := [("tomb", 0)]; want := Some ("acceptTomb", 0) |};
    {| held := [("acceptTomb", 0)]; want := Some ("ToxicCollection", 0) |};
    {| held := [("ToxicCollection", 0)]; want := None |} ]%string.

Lemma stop_state_follows :
  followsb lock_edges stop_state = true /\ blocker stop_state 0 = Some 1 /\
  chase 3 stop_state 0 = 3 /\ blocker stop_state 3 = None.
Proof. vm_compute. repeat split; reflexivity. Qed.

(** tightness: let a toxic request ask for the proxy's lock while it holds the toxic collection's (seed C16-c):
    the same four threads then all wait for each other, and the executable check rejects the relation *)
Definition inverted_state : state :=
  [ {| held := [("Proxy", 0)]; want := Some ("tomb", 0) |};
    {| held := [("tomb", 0)]; want := Some ("acceptTomb", 0) |};
    {| held := [("acceptTomb", 0)]; want := Some ("ToxicCollection", 0) |};
    {| held := [("ToxicCollection", 0)]; want := Some ("Proxy", 0) |} ]%string.

Lemma inverted_order_deadlocks :
  let es := (("ToxicCollection", "Proxy")%string :: lock_edges) in
  lock_order_ok es = false /\ followsb es inverted_state = true /\
  forallb (fun i => match blocker inverted_state i with Some _ => true | None => false end) [0; 1; 2; 3] = true.
Proof. vm_compute. repeat split; reflexivity. Qed.

(** ---- every state an execution reaches follows the relation: the two theorems above therefore hold
    along every execution of any number of threads, from the state in which nobody holds anything *)
Lemma in_set_thread st : forall t th x, In x (set_thread st t th) -> x = th \/ In x st.
Proof.
  induction st as [|y r IH]; intros t th x H; cbn in H; [contradiction|].
  destruct t as [|t']; cbn in H.
  - destruct H as [H|H]; [left; symmetry; exact H|right; right; exact H].
  - destruct H as [H|H]; [right; left; exact H|]. destruct (IH _ _ _ H) as [E|E]; [left; exact E|right; right; exact E].
Qed.

Lemma in_remove_lock l ls : forall x, In x (remove_lock l ls) -> In x ls.
Proof.
  induction ls as [|y r IH]; intros x H; cbn in H; [contradiction|].
  destruct (lock_eqb l y); [right; exact H|]. destruct H as [H|H]; [left; exact H|right; apply IH; exact H].
Qed.

Lemma edge_in_In es a b : edge_in es a b = true -> In (a, b) es.
Proof.
  unfold edge_in. intros H. apply existsb_exists in H. destruct H as ([x y] & Hin & He). cbn in He.
  apply andb_true_iff in He. destruct He as [H1 H2]. apply String.eqb_eq in H1. apply String.eqb_eq in H2. subst. exact Hin.
Qed.

Lemma lstep_follows es st op st' : follows es st -> lstep es st op = Some st' -> follows es st'.
Proof.
  intros Hf H. destruct op as [t l|t l]; cbn in H.
  - destruct (nth_error st t) as [th|] eqn:Ht; [|discriminate].
    destruct (allowed es th l && _) eqn:Ha; [|discriminate]. apply andb_true_iff in Ha. destruct Ha as [Hal _].
    destruct (is_free st l); injection H as <-; intros th0 l0 h Hin Hw Hh;
      (destruct (in_set_thread _ _ _ _ Hin) as [E|E]; [subst th0; cbn in Hw, Hh|exact (Hf th0 l0 h E Hw Hh)]).
    + discriminate.
    + injection Hw as <-. unfold allowed in Hal. rewrite forallb_forall in Hal. apply edge_in_In. apply Hal. exact Hh.
  - destruct (nth_error st t) as [th|] eqn:Ht; [|discriminate].
    destruct (want th) eqn:Hw0; [discriminate|]. destruct (holdsb th l); [|discriminate]. injection H as <-.
    intros th0 l0 h Hin Hw Hh. destruct (in_set_thread _ _ _ _ Hin) as [E|E]; [subst th0; cbn in Hw; discriminate|exact (Hf th0 l0 h E Hw Hh)].
Qed.

Lemma idle_follows es n : follows es (idle_threads n).
Proof. intros th l h Hin Hw _. apply repeat_spec in Hin. subst th. discriminate. Qed.

Theorem lrun_follows es : forall ops st st', follows es st -> lrun es st ops = Some st' -> follows es st'.
Proof.
  induction ops as [|op r IH]; intros st st' Hf H; cbn in H; [injection H as <-; exact Hf|].
  destruct (lstep es st op) as [st1|] eqn:Hs; [|discriminate]. eapply IH; [eapply lstep_follows; eassumption|exact H].
Qed.

Theorem executions_never_deadlock n ops st :
  lrun lock_edges (idle_threads n) ops = Some st ->
  (forall i, ~ clos_trans nat (waits_for st) i i) /\
  (forall i, blocker st (chase (bound (compute_ranks lock_edges)) st i) = None).
Proof.
  intros H. assert (Hf : follows lock_edges st) by (eapply lrun_follows; [apply idle_follows|exact H]).
  split; [apply extracted_no_cycle; exact Hf|intros i; apply extracted_chains_end; exact Hf].
Qed.

(** an execution with waiting in it: a stop request takes the proxy's lock and waits for the tomb, the goroutine
    that ends the tomb waits for the accept tomb, the accept loop wants the toxic collection's lock that a toxic
    request holds *)
Lemma stop_execution :
  lrun lock_edges (idle_threads 4)
       [OAcq 3 ("ToxicCollection", 0); OAcq 2 ("acceptTomb", 0); OAcq 1 ("tomb", 0); OAcq 0 ("Proxy", 0);
        OAcq 0 ("tomb", 0); OAcq 1 ("acceptTomb", 0); OAcq 2 ("ToxicCollection", 0)]%string = Some stop_state.
Proof. vm_compute. reflexivity. Qed.

(** C09: bandwidth. Per-chunk schedule of the stage (exact, from the extracted expressions) and
    the arithmetic core of the rate bound. *)
From TP Require Import Model.Prelude Extracted Model.Toxics Proofs.GoArith Proofs.StageContract Proofs.StageRun.
From Coq Require Import ZifyBool ZifyNat.

Definition rate_ok (rate : Z) : Prop := 0 < rate /\ rate * 100 < two63.
Definition dur (len rate : Z) : Z := (len * 1000000) / rate.     (* floor(len / rate) ms, in ns *)

Lemma bw_sleep_add_exact acc len rate :
  rate_ok rate -> 0 <= len <= 4294967296 -> - two63 / 2 <= acc <= 0 ->
  bw_sleep_add acc len rate = acc + dur len rate.
Proof.
  intros [Hr Hm] Hl Ha. unfold bw_sleep_add, dur.
  replace (rate <=? 0) with false by lia.
  rewrite (wrap64_id (len * 1000000)) by (unfold two63 in *; lia).
  rewrite godiv_div by lia.
  assert (0 <= len * 1000000 / rate <= len * 1000000).
  { split; [apply Z.div_pos; lia|]. apply Z.div_le_upper_bound; nia. }
  apply wrap64_id. unfold two63 in *. lia.
Qed.

(** a chunk of at most 100*rate bytes, taken at [at_] with (non-positive) credit [acc]: forwarded
    whole at at_ + max(0, acc + floor(len*10^6/rate)); the oversleep is credited to the next chunk *)
Theorem bw_small_chunk rate ps at_ acc (c : chunk) fuel :
  (1 < fuel)%nat -> rate_ok rate -> - two63 / 2 <= acc <= 0 ->
  zlen (cdata c) <= rate * 100 -> zlen (cdata c) <= 4294967296 ->
  let sl := acc + dur (zlen (cdata c)) rate in
  let s1 := fst (on_input (TBandwidth rate) ps at_ [] (Some c) (Idle acc None)) in
  let r := stage_emit (TBandwidth rate) ps at_ fuel None s1 in
  fst (fst r) = [(at_ + Z.max 0 sl, cdata c)] /\ final_st r = Idle (Z.min 0 sl) None.
Proof.
  intros Hf Hr Ha Hsmall Hlen sl s1 r. subst s1 r. cbn [on_input fst].
  rewrite bw_sleep_add_exact by (auto; pose proof (zlen_nonneg (cdata c)); lia).
  fold sl. unfold bw_loop.
  destruct Hr as [Hr0 Hr1].
  replace (bw_split_test (zlen (cdata c)) rate) with false.
  2:{ unfold bw_split_test. rewrite maxint_cent. rewrite wrap64_id by (unfold two63 in *; lia). unfold two63 in *; lia. }
  destruct fuel as [|[|f]]; try lia.
  cbn [stage_emit mode_of on_sent]. unfold on_timer. cbn [on_timer_gen on_sent].
  replace (Z.max at_ (at_ + sl)) with (at_ + Z.max 0 sl) by lia.
  replace (sl - (at_ + Z.max 0 sl - at_)) with (Z.min 0 sl) by lia.
  destruct f; unfold final_st; simpl; auto.
Qed.

(** a chunk above 100*rate bytes: after exactly 100 ms the first instalment of exactly 100*rate
    bytes is offered, and the stage continues with the rest and 100 ms less to sleep *)
Theorem bw_instalment rate now (p : chunk) sl :
  rate_ok rate -> rate * 100 < zlen (cdata p) ->
  bw_loop rate p sl now = BwInst p rate sl (now + bw_instalment_ns) /\
  bw_instalment_ns = 100000000 /\
  on_timer (TBandwidth rate) (now + bw_instalment_ns) (BwInst p rate sl (now + bw_instalment_ns)) =
    Send (mkChunk (slice_to (cdata p) (rate * 100)) (cts p))
         (KBwLoop (mkChunk (slice_from (cdata p) (rate * 100)) (cts p)) (sl - bw_instalment_ns)) /\
  zlen (slice_to (cdata p) (rate * 100)) = rate * 100.
Proof.
  intros [Hr0 Hr1] Hbig. unfold bw_loop.
  replace (bw_split_test (zlen (cdata p)) rate) with true.
  2:{ unfold bw_split_test. rewrite maxint_cent. rewrite wrap64_id by (unfold two63 in *; lia). unfold two63 in *; lia. }
  split; [reflexivity|]. split; [reflexivity|]. split.
  - unfold on_timer. cbn [on_timer_gen]. replace (if bw_cut_uses_tested_rate then rate else rate) with rate by (destruct bw_cut_uses_tested_rate; reflexivity).
    unfold bw_instalment_bytes. rewrite wrap64_id by (unfold two63 in *; lia).
    unfold slice_ok. replace ((0 <=? 0) && (0 <=? rate * 100) && (rate * 100 <=? zlen (cdata p))) with true by lia.
    reflexivity.
  - apply zlen_slice_to. lia.
Qed.

(** arithmetic core of the rate bound: if each chunk k (length L_k, taken at p_k with credit a_k)
    is forwarded at e_k >= p_k + a_k + D_k, the next credit is a_k + D_k - (e_k - p_k) and the next
    chunk is taken no earlier than e_k, then e_k >= p_1 + D_1 + ... + D_k. With D_k =
    floor(L_k * 10^6 / rate) this is: bytes forwarded by time t <= rate * (t - p_1) / 10^6 + one
    nanosecond's worth per chunk - the rate limit with Go's truncating division made explicit. *)
Fixpoint sched_ok (a p : Z) (steps : list (Z * Z * Z)) : Prop :=   (* (D_k, e_k, p_{k+1}) *)
  match steps with
  | [] => True
  | (D, e, p') :: r => p + a + D <= e /\ e <= p' /\ a + D - (e - p) <= 0 /\ sched_ok (a + D - (e - p)) p' r
  end.

Fixpoint last_emit (e0 : Z) (steps : list (Z * Z * Z)) : Z :=
  match steps with [] => e0 | (_, e, _) :: r => last_emit e r end.

Definition sumD (steps : list (Z * Z * Z)) : Z := fold_right (fun s acc => fst (fst s) + acc) 0 steps.

Lemma rate_arith steps : forall a p, a <= 0 -> sched_ok a p steps -> steps <> [] ->
  p + a + sumD steps <= last_emit p steps.
Proof.
  induction steps as [|[[D e] p'] r IH]; intros a p Ha Hs Hne; [congruence|].
  simpl in Hs. destruct Hs as (H1 & H2 & H3 & H4). unfold sumD; simpl. fold (sumD r).
  destruct r as [|s r'].
  - simpl. unfold sumD; simpl. lia.
  - specialize (IH (a + D - (e - p)) p' H3 H4 ltac:(discriminate)).
    simpl in IH |- *. destruct s as [[D2 e2] p2]. simpl in *. lia.
Qed.

Lemma dur_bound len rate : 0 < rate -> 0 <= len -> len * 1000000 - rate < dur len rate * rate <= len * 1000000.
Proof.
  intros Hr Hl. unfold dur.
  pose proof (Z.div_mod (len * 1000000) rate ltac:(lia)).
  pose proof (Z.mod_pos_bound (len * 1000000) rate Hr). nia.
Qed.

Example c09_nonvacuous :
  let r := stage_emit (TBandwidth 10) None 0 40 None
             (fst (on_input (TBandwidth 10) None 0 [] (Some (mkChunk (repeat 7 2500) 0)) (Idle 0 None))) in
  map (fun e => (fst e, zlen (snd e))) (fst (fst r)) = [(100000000, 1000); (200000000, 1000); (250000000, 500)].
Proof. vm_compute. reflexivity. Qed.

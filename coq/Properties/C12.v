(** C12 — slicer re-chunks without changing the stream, within its size bound.
    [slicer_chunk] is toxics/slicer.go's chunk with the four expressions extracted from the source
    (base test, mid point, random offset and its argument); [stage_emit] runs one slicer stage in
    isolation with its timers firing at their deadlines and an optional interrupt in the k-th wait. *)
From TP Require Import Model.Prelude Extracted Model.Toxics Proofs.SlicerProofs Proofs.StageContract
     Proofs.StageRun Proofs.C12Proofs.

(** for 0 <= size_variation < average_size (ints, i.e. below 2^63; offsets are slice indices, likewise), every size and every sequence of random draws: the
    recursion terminates within size+1 levels and the offsets partition [start,end) into
    consecutive non-empty pieces of at most average_size + size_variation bytes *)
Theorem C12_chunk_spec : forall (fuel : nat) avg var start end_ draws,
  0 <= var < avg -> avg < two63 -> 0 <= start -> end_ < two63 -> start <= end_ -> (Z.to_nat (end_ - start) < fuel)%nat ->
  exists os ds, slicer_chunk fuel avg var start end_ draws = CROk os ds /\
                covers os start end_ /\ (start < end_ -> pieces_within (avg + var) os).
Proof. exact slicer_chunk_spec. Qed.
Print Assumptions C12_chunk_spec.

(** a whole input chunk through the stage, uninterrupted: the pieces concatenate to the input
    (nothing held at the end), each is non-empty and at most avg+var long, and consecutive pieces
    are offered at least delay microseconds apart *)
Theorem C12_chunk_through : forall avg var delay,
  0 <= var < avg ->
  forall ps now draws (c : chunk) fuel,
  avg < two63 -> zlen (cdata c) < two63 ->
  0 < zlen (cdata c) ->
  let s := fst (on_input (TSlicer avg var delay) ps now draws (Some c) (Idle 0 None)) in
  let r := stage_emit (TSlicer avg var delay) ps now fuel None s in
  emitted r ++ held (final_st r) = cdata c /\
  Forall (fun e => 0 < zlen (snd e) <= avg + var) (fst (fst r)) /\
  gaps_ok (slicer_delay_ns delay) (map fst (fst (fst r))).
Proof. exact slicer_chunk_through. Qed.
Print Assumptions C12_chunk_through.

(** interrupted (update / removal) in any wait, i.e. at any piece boundary: what was emitted plus
    what is still held is exactly the input - nothing lost or duplicated (for every attribute
    value, since the repair of F5a) *)
Theorem C12_stream_exact : forall avg var delay ps now draws (c : chunk) fuel intr_at,
  let s := fst (on_input (TSlicer avg var delay) ps now draws (Some c) (Idle 0 None)) in
  let r := stage_emit (TSlicer avg var delay) ps now fuel intr_at s in
  emitted r ++ held (final_st r) = cdata c.
Proof. exact c12_stream_exact. Qed.
Print Assumptions C12_stream_exact.

Theorem C12_wait_after_piece : forall avg var delay ps now (pc c' : chunk) rest o tot,
  on_sent (TSlicer avg var delay) ps now (Send pc (KSlNext c' rest o tot)) =
  (SlWait c' rest o tot (now + slicer_delay_ns delay), ps).
Proof. exact c12_wait_after_piece. Qed.
Print Assumptions C12_wait_after_piece.

Theorem C12_interrupt : forall now (c : chunk) rest o tot dl,
  on_interrupt now (SlWait c rest o tot dl) = Send c KExit /\
  held (Send c KExit) = cdata c /\
  (forall tx ps, on_sent tx ps now (Send c KExit) = (Exited, ps)) /\ held Exited = [].
Proof. exact c12_interrupt. Qed.
Print Assumptions C12_interrupt.

Theorem C12_send_not_interruptible : forall (c : chunk) k now, on_interrupt now (Send c k) = Send c k.
Proof. exact c12_send_not_interruptible. Qed.
Print Assumptions C12_send_not_interruptible.

(** regenerated from toxics/*.go on every run: in no built-in toxic is the hand-off `stub.Output <- x`
    an arm of a select - which is what makes [Send] states deaf to interrupts in the model *)
Theorem C12_sends_are_plain : toxic_sends_are_plain = true.
Proof. reflexivity. Qed.
Print Assumptions C12_sends_are_plain.

(** outside the documented range the recursion still terminates and partitions the chunk; the
    pieces are non-empty but their size is not bounded by the attributes, whose arithmetic may wrap (C07; the pinned code diverged on 0/0: F5a) *)
Theorem C12_total_any_attributes : forall (fuel : nat) avg var start end_ draws,
  start <= end_ -> (Z.to_nat (end_ - start) < fuel)%nat ->
  exists os ds, slicer_chunk fuel avg var start end_ draws = CROk os ds /\
                covers os start end_ /\ (start < end_ -> pieces_within (end_ - start) os).
Proof. exact slicer_chunk_total. Qed.
Print Assumptions C12_total_any_attributes.

(** C04 — listed toxics are exactly the toxics in effect, on old and new connections.
    [Collection] models what link.go and toxic_collection.go keep between API operations: the
    listed chain and, per registered connection, the stubs addressed by chain position. *)
From Coq Require Import String.
From TP Require Import Model.Prelude Extracted Model.Collection Proofs.C04Proofs.
From TP Require Model.Toxics Model.Timed Model.Reconf Proofs.TxList.

(** every path out of ToxicLink.RemoveToxic drops the removed toxic's stub (extracted from link.go) *)
Theorem C04_remove_always_splices : remove_always_splices = true.
Proof. reflexivity. Qed.
Print Assumptions C04_remove_always_splices.

(** over every history of add / update / remove (from any position, any name re-use) and of
    connections starting, ending and having their stream end at any stub, with any subset of links
    taking an early-return path of each removal: the stub at position i of every registered
    connection belongs to the toxic listed at position i *)
Theorem C04_aligned : forall ops, aligned (crun ops).
Proof. exact (run_aligned C04_remove_always_splices). Qed.
Print Assumptions C04_aligned.

(** a connection established after the history is built from the listed chain itself *)
Theorem C04_new_connection : forall c,
  nth_error (c_links (cstep c OLinkStart)) (length (c_links c)) = Some (map (fun n => mkCStub n false) (c_chain c)).
Proof. intros c. simpl. rewrite nth_error_app2 by lia. now rewrite Nat.sub_diag. Qed.
Print Assumptions C04_new_connection.

(** the index under which an operation addresses a toxic is its position in the listed chain *)
Theorem C04_index_is_position : forall name l i k,
  index_of name l i = Some k -> (i <= k)%nat /\ nth_error l (k - i) = Some name.
Proof. exact index_of_nth. Qed.
Print Assumptions C04_index_is_position.

(** regression witness for the repaired defect F4: without the splice on the early-return paths
    the second toxic's stub ends up at the wrong position *)
Theorem C04_aligned_refuted_pinned :
  let c := fold_left cstep_pinned [OLinkStart; OAdd "a"; OAdd "b"; OCloseFrom 0 0; ORemove "a" [true]]%string coll_init in
  ~ aligned c.
Proof. exact aligned_refuted_pinned. Qed.
Print Assumptions C04_aligned_refuted_pinned.

(** regenerated from link.go on every run: a link leaves the collection only from write(), after the
    destination was closed - so a connection whose sender has closed but whose data or close is
    still held by a toxic is still reached by every chain operation *)
Theorem C04_links_stay_registered_until_written : link_unregistered_only_by_writer = true.
Proof. reflexivity. Qed.
Print Assumptions C04_links_stay_registered_until_written.

(** on the link level, under every interleaving of the data path with the control actions of the
    operations: which toxic and which toxicity decision each stub of a connection runs is changed by
    the control actions only, each in exactly one way (data-path actions, time, interrupts,
    flushes and closes change nothing) *)
Theorem C04_only_control_actions_change_the_toxics : forall sigma l l',
  Reconf.mixed_run l sigma = Some l' -> TxList.tes l' = TxList.tes_fold sigma (TxList.tes l).
Proof. exact TxList.mixed_run_tes. Qed.
Print Assumptions C04_only_control_actions_change_the_toxics.

(** ... and the three operations, as the control actions their processes emit (Model/ReconfRun.v,
    replayed against the code), do to that list exactly what the API does to its listing: an update
    replaces the entry (attributes written first, then the stage restarted with the new decision), an
    add inserts the new toxic behind the last stub, a remove deletes the entry *)
Theorem C04_update_replaces : forall p tx eff ts,
  TxList.tes_after (Reconf.CRestart p tx eff) (TxList.tes_after (Reconf.CInterrupt p) (TxList.tes_after (Reconf.CSetTx p tx) ts)) = TxList.upd_nth p (fun _ => (tx, eff)) ts.
Proof. exact TxList.update_replaces. Qed.
Print Assumptions C04_update_replaces.

Theorem C04_add_inserts : forall p tx eff effp (ts : list (Toxics.toxic * bool)) txp effp0,
  nth_error ts p = Some (txp, effp0) ->
  TxList.tes_after (Reconf.CRestart p txp effp) (TxList.tes_after (Reconf.CInsertAfter p tx eff) (TxList.tes_after (Reconf.CInterrupt p) ts)) =
  firstn (S p) (TxList.upd_nth p (fun _ => (txp, effp)) ts) ++ (tx, eff) :: skipn (S p) ts.
Proof. exact TxList.add_inserts. Qed.
Print Assumptions C04_add_inserts.

Theorem C04_remove_deletes : forall p q txq effq (ts : list (Toxics.toxic * bool)),
  (q < p)%nat ->
  TxList.tes_after (Reconf.CRestart q txq effq) (TxList.tes_after (Reconf.CDelete p) ts) = TxList.upd_nth q (fun _ => (txq, effq)) (Reconf.remove_nth p ts).
Proof. exact TxList.remove_deletes. Qed.
Print Assumptions C04_remove_deletes.

(** operations reach every open connection: an add or update gives up on a connection only when
    the stage it has to interrupt is closed (its stream has ended there) - never because the stage
    is busy, for however long (regenerated: the interrupt of AddToxic / UpdateToxic is the plain,
    unbounded InterruptToxic, and the new stage is connected only after it succeeded) *)
From TP Require Model.ReconfRun Proofs.ReconfRunProofs.
Theorem C04_operations_reach_every_open_connection : forall l p w,
  ReconfRun.interrupt_try l p w = ReconfRun.IFalse ->
  exists s, nth_error (Timed.l_stubs l) p = Some s /\ Timed.s_closed s = true /\ w = false.
Proof. exact ReconfRunProofs.interrupt_gives_up_only_on_closed. Qed.
Print Assumptions C04_operations_reach_every_open_connection.

Theorem C04_operation_code_facts :
  interrupt_is_unbounded = true /\ ops_use_plain_interrupt = true /\ add_connects_after_interrupt = true.
Proof. repeat split; reflexivity. Qed.
Print Assumptions C04_operation_code_facts.

(** the model keeps one chain per direction; in the code each direction's chain is a slice of its own
    (a fresh allocation per direction in NewToxicCollection, regenerated), so appending the n-th
    toxic of one direction cannot write into the chain of the other *)
Theorem C04_chains_are_separate : chains_are_separate = true.
Proof. reflexivity. Qed.
Print Assumptions C04_chains_are_separate.

(** C08 — latency toxic delays every piece by latency +/- jitter, without throttling.
    Stage-level statements about toxics/latency.go as modelled (delay(), the sleep computation and
    the units are extracted from the source). [ms_ok] bounds magnitudes so that Duration arithmetic
    does not wrap (about +/- 146 years). *)
From TP Require Import Model.Prelude Extracted Model.Toxics Model.Timed Proofs.StageContract
     Proofs.StageRun Proofs.StageFeed Proofs.TimingProofs.

(** every drawn delay lies in [latency - jitter, latency + jitter) ms; it is latency when jitter <= 0 *)
Theorem C08_delay_range : forall lat jit draws,
  ms_ok lat -> ms_ok jit ->
  exists d ds, latency_delay lat jit draws = (Some d, ds) /\
    (if 0 <? jit then (lat - jit) * 1000000 <= d < (lat + jit) * 1000000 else d = lat * 1000000).
Proof. exact latency_delay_range. Qed.
Print Assumptions C08_delay_range.

(** a chunk stamped ts by the proxy's reader and picked up by the stage at at_ is forwarded, whole
    and unchanged, at max(at_, ts + d) when the receiver is ready: never before ts + d, and exactly
    at ts + d unless the stage was still busy with an earlier chunk - the delay counts from arrival,
    not from pick-up, so a burst (any size: the stamp is taken before the hand-off that may block)
    is delayed once and throughput is not reduced *)
Theorem C08_emit_time : forall lat jit ps draws at_ (c : chunk) fuel d ds,
  (1 < fuel)%nat ->
  latency_delay lat jit draws = (Some d, ds) ->
  let s1 := fst (on_input (TLatency lat jit) ps at_ draws (Some c) (Idle 0 None)) in
  let r := stage_emit (TLatency lat jit) ps at_ fuel None s1 in
  fst (fst r) = [(Z.max at_ (cts c + d), cdata c)] /\ final_st r = Idle 0 None.
Proof. exact latency_one. Qed.
Print Assumptions C08_emit_time.

(** a timer never fires before its deadline, on any schedule of the link *)
Theorem C08_not_early : forall l i l',
  stub_timer l i = Some l' ->
  exists s dl, nth_error (l_stubs l) i = Some s /\ stub_deadline s = Some dl /\ dl <= l_now l.
Proof. exact timer_not_early. Qed.
Print Assumptions C08_not_early.

(** order and content: the latency stage meets the preserving contract (see the C01_stage theorems) *)
Theorem C08_order_content : forall lat jit, preserving (TLatency lat jit).
Proof. intros; exact I. Qed.
Print Assumptions C08_order_content.

(** the stamp passed downstream is arrival stamp + sleep; that is the forwarding time only when
    the chunk was picked up the instant it was stamped. Two latency toxics in series therefore
    under-delay a chunk that waited behind another (finding F6). Witness on the executable model:
    100 ms then 50 ms, one byte at 0 and one at 60 ms: the second leaves at 170 ms, 110 ms after
    it arrived instead of 150 ms. *)
Theorem C08_series_refuted :
  exists l, run_quiet 200 1000000000
              (link_init [(TLatency 100 0, true); (TLatency 50 0, true)]
                         [SWrite 0 [1]; SWrite 60000000 [2]] []) = Some l /\
            sink_trace l = [(150000000, 1); (170000000, 1)].
Proof. eexists. split; vm_compute; reflexivity. Qed.
Print Assumptions C08_series_refuted.

(** when the first stage is idle at each arrival the delays do add up *)
Theorem C08_series_when_idle :
  exists l, run_quiet 200 1000000000
              (link_init [(TLatency 100 0, true); (TLatency 50 0, true)]
                         [SWrite 0 [1]; SWrite 200000000 [2]] []) = Some l /\
            sink_trace l = [(150000000, 1); (350000000, 1)].
Proof. eexists. split; vm_compute; reflexivity. Qed.
Print Assumptions C08_series_when_idle.

(** ---- sequences: with jitter 0 the stage's run over any sequence of chunks is the closed form
    e_k = max(p_k, stamp_k + latency) (p_k = when the stage picked chunk k up) ... *)
From TP Require Import Proofs.StageFeed Proofs.FeedProofs.
Theorem C08_sequence_closed_form : forall lat fuel, (1 < fuel)%nat -> forall ps, ms_ok lat -> forall arr,
  feed (TLatency lat 0) fuel ps (Idle 0 None) (arrivals arr) = (lat_sched (lat * 1000000) arr, Idle 0 None, ps).
Proof. exact lat_feed. Qed.
Print Assumptions C08_sequence_closed_form.

(** ... so a burst - chunks stamped at one instant and picked up back to back, however many - leaves
    at one instant, stamp + latency: every chunk is delayed once, counted from its arrival, and the
    toxic does not throttle *)
Theorem C08_burst_is_delayed_once : forall L ts arr,
  Forall (fun pc => cts (snd pc) = ts /\ fst pc <= ts + L) arr ->
  Forall (fun e => fst e = ts + L) (lat_sched L arr).
Proof. exact lat_burst. Qed.
Print Assumptions C08_burst_is_delayed_once.

(** a latency toxic that is created, or whose latency is raised, reaches every connection whose
    stage is not closed, however long that stage is busy handing data to a slow receiver: AddToxic /
    UpdateToxic give up on a link only when the stub is closed, the interrupt they use has no time
    limit, and the new stage is connected and started only after the interrupt succeeded
    (regenerated shape of ToxicLink.AddToxic / UpdateToxic and ToxicStub.InterruptToxic) *)
From TP Require Model.Reconf Model.ReconfRun Proofs.ReconfRunProofs.
Theorem C08_reaches_every_open_connection : forall l p w,
  ReconfRun.interrupt_try l p w = ReconfRun.IFalse -> exists s, nth_error (l_stubs l) p = Some s /\ s_closed s = true /\ w = false.
Proof. exact ReconfRunProofs.interrupt_gives_up_only_on_closed. Qed.
Print Assumptions C08_reaches_every_open_connection.

Theorem C08_operation_code_facts :
  interrupt_is_unbounded = true /\ ops_use_plain_interrupt = true /\ add_connects_after_interrupt = true /\
  update_writes_before_interrupt = true.
Proof. repeat split; reflexivity. Qed.
Print Assumptions C08_operation_code_facts.

(** the end of the stream reaches the receiver only through the chain, behind the delayed data: the
    reader goroutine closes the chain's input and nothing else, and waits for nothing (regenerated
    from ToxicLink.read); in the model a stage closes its output only after its input was closed and
    drained (closure order, C01) *)
Theorem C08_end_of_stream_travels_through_the_chain : reader_closes_only_its_input = true.
Proof. reflexivity. Qed.
Print Assumptions C08_end_of_stream_travels_through_the_chain.

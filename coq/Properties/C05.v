(** C05 — the HTTP API behaves as the documented sequential state machine.
    [api_step] (Model/Api.v) is the sequential registry machine itself, written handler by handler
    from the Go code with routes, status codes, defaults and the toxic registry extracted from the
    source; it is what the correspondence harness replays every request sequence through. The
    theorems below are laws of that machine. *)
From Coq Require Import String.
From TP Require Import Model.Prelude Extracted Model.Json Model.Api Proofs.ApiProofs.

(** a request that identifies itself as a browser has no effect and is answered 403 on every
    route (404/405 come from the router itself, before the middleware, for unknown paths/methods) *)
Theorem C05_browser : forall e s r,
  r_browser r = true ->
  snd (api_step e s r) = s /\
  (status (fst (api_step e s r)) = status_browser_forbidden \/
   status (fst (api_step e s r)) = status_not_found \/
   status (fst (api_step e s r)) = status_method_not_allowed).
Proof. exact browser_refused. Qed.
Print Assumptions C05_browser.

Theorem C05_status_codes :
  status_browser_forbidden = 403 /\ status_proxy_not_found = 404 /\ status_toxic_not_found = 404 /\
  status_proxy_exists = 409 /\ status_toxic_exists = 409 /\
  status_bad_request_body = 400 /\ status_missing_field = 400 /\ status_invalid_stream = 400 /\
  status_invalid_toxic_type = 400 /\ status_created = 201 /\ status_no_content = 204 /\ status_ok = 200.
Proof. repeat split; reflexivity. Qed.
Print Assumptions C05_status_codes.

Theorem C05_defaults :
  create_enabled_default = true /\ toxic_stream_default = "downstream"%string /\ toxic_toxicity_default_1024 = 1024.
Proof. repeat split; reflexivity. Qed.
Print Assumptions C05_defaults.

(** unknown names yield 404 and change nothing *)
Theorem C05_unknown_proxy : forall e s name b t,
  find_proxy s name = None ->
  h_proxy_show s name = (err status_proxy_not_found, s) /\
  h_proxy_update e s name b = (err status_proxy_not_found, s) /\
  h_proxy_delete s name = (err status_proxy_not_found, s) /\
  h_toxic_index s name = (err status_proxy_not_found, s) /\
  h_toxic_create s name b = (err status_proxy_not_found, s) /\
  h_toxic_show s name t = (err status_proxy_not_found, s) /\
  h_toxic_update s name t b = (err status_proxy_not_found, s) /\
  h_toxic_delete s name t = (err status_proxy_not_found, s).
Proof.
  intros e s name b t H.
  unfold h_proxy_show, h_proxy_update, h_proxy_delete, h_toxic_index, h_toxic_create, h_toxic_show, h_toxic_update, h_toxic_delete.
  rewrite H. repeat split; reflexivity.
Qed.
Print Assumptions C05_unknown_proxy.

(** a duplicate proxy name is refused with 409 whatever else the (well-formed) body says *)
Theorem C05_duplicate_proxy : forall e s p name listen upstream,
  find_proxy s name = Some p -> name <> ""%string -> upstream <> ""%string ->
  h_proxy_create e s (BJson (JObj [("name", JStr name); ("listen", JStr listen); ("upstream", JStr upstream)]%string))
  = (err status_proxy_exists, s).
Proof.
  intros e s p name listen upstream Hf Hn Hu. unfold h_proxy_create. simpl.
  destruct (String.eqb name "") eqn:E1; [apply String.eqb_eq in E1; congruence|].
  destruct (String.eqb upstream "") eqn:E2; [apply String.eqb_eq in E2; congruence|].
  rewrite Hf. reflexivity.
Qed.
Print Assumptions C05_duplicate_proxy.

(** every answer >= 400 outside the bind class leaves the registry unchanged (shared with C06) *)
Theorem C05_errors_have_no_effect : update_in_place = false -> forall e s r,
  rejected (fst (api_step e s r)) ->
  snd (api_step e s r) = s \/
  (status (fst (api_step e s r)) = status_internal /\
   exists h, fst (route routes (r_meth r) (r_path r) false) = Some h /\
             (h = "ProxyUpdate" \/ h = "Populate" \/ h = "ResetState")%string).
Proof. exact rejected_unchanged. Qed.
Print Assumptions C05_errors_have_no_effect.

(** the registry invariant: in every state reachable from the empty server by ANY request sequence
    (valid, malformed, conflicting; populate and reset included) proxies are unique by name and
    toxics are unique by name within each proxy, across both streams *)
From TP Require Import Proofs.ApiInv.
Theorem C05_registry_invariant : forall e rs,
  let s := snd (api_run e [] rs) in
  NoDup (map p_name s) /\ Forall (fun p => NoDup (map t_name (all_toxics p))) s.
Proof. exact reachable_registry. Qed.
Print Assumptions C05_registry_invariant.

(** ... and one request preserves it from any state that has it *)
Theorem C05_registry_step : forall e s r,
  NoDup (map p_name s) -> Forall (fun p => NoDup (map t_name (all_toxics p))) s ->
  NoDup (map p_name (snd (api_step e s r))) /\ Forall (fun p => NoDup (map t_name (all_toxics p))) (snd (api_step e s r)).
Proof. intros e s r H1 H2. split; [exact (step_uniq e s r H1)|exact (step_tuniq e s r H2)]. Qed.
Print Assumptions C05_registry_step.

(** ---- every read reflects all earlier successful writes *)
From TP Require Import Proofs.ApiReads.

Theorem C05_reads_are_pure : forall s n t,
  snd (h_proxy_index s) = s /\ snd (h_proxy_show s n) = s /\ snd (h_toxic_index s n) = s /\ snd (h_toxic_show s n t) = s.
Proof. exact reads_are_pure. Qed.
Print Assumptions C05_reads_are_pure.

Theorem C05_create_then_read : forall e s b resp s',
  h_proxy_create e s b = (resp, s') -> status resp = status_created ->
  exists p', pl resp = PProxy p' /\ find_proxy s (p_name p') = None /\
             h_proxy_show s' (p_name p') = (mkResp status_ok (PProxy p'), s') /\
             (forall m, m <> p_name p' -> find_proxy s' m = find_proxy s m).
Proof. exact create_then_read. Qed.
Print Assumptions C05_create_then_read.

Theorem C05_update_then_read : forall e s n b resp s',
  h_proxy_update e s n b = (resp, s') -> status resp = status_ok ->
  exists p p', find_proxy s n = Some p /\ pl resp = PProxy p' /\ p_name p' = n /\
               p_up p' = p_up p /\ p_down p' = p_down p /\
               h_proxy_show s' n = (mkResp status_ok (PProxy p'), s') /\
               (forall m, m <> n -> find_proxy s' m = find_proxy s m).
Proof. exact update_then_read. Qed.
Print Assumptions C05_update_then_read.

Theorem C05_delete_then_read : forall s n resp s',
  NoDup (map p_name s) -> h_proxy_delete s n = (resp, s') -> status resp = status_no_content ->
  h_proxy_show s' n = (err status_proxy_not_found, s') /\ (forall m, m <> n -> find_proxy s' m = find_proxy s m).
Proof. exact delete_then_read. Qed.
Print Assumptions C05_delete_then_read.

Theorem C05_toxic_requests_touch_one_proxy : forall s n t b m,
  m <> n ->
  find_proxy (snd (h_toxic_create s n b)) m = find_proxy s m /\
  find_proxy (snd (h_toxic_update s n t b)) m = find_proxy s m /\
  find_proxy (snd (h_toxic_delete s n t)) m = find_proxy s m.
Proof. exact toxic_requests_frame. Qed.
Print Assumptions C05_toxic_requests_touch_one_proxy.

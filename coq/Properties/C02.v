(** C02 — reconfiguring toxics never corrupts a live stream.
    [mixed_run] interleaves, in any order, the data-path actions of a link (reader, stages, timers,
    hand-offs, writer, time passing) with the control steps that AddToxic / UpdateToxic /
    RemoveToxic / InterruptToxic / Run perform on it (Model/Reconf.v). *)
From TP Require Import Model.Prelude Extracted Model.Toxics Model.Timed Model.Reconf
     Proofs.StageContract Proofs.LinkInv Proofs.ReconfInv.

(** every single control step - an interrupt landing in any wait of any stage, a stage restarted
    with any data-preserving toxic and any toxicity decision, a stub appended, a queued chunk
    flushed past a removed toxic, the stub spliced out - keeps delivered ++ in flight ++ pending
    equal to the source stream *)
Theorem C02_control_step : forall l a l',
  link_ok l -> ctl_ok a -> ctl_step l a = Some l' -> link_ok l' /\ stream l' = stream l.
Proof. exact ctl_preserves. Qed.
Print Assumptions C02_control_step.

(** hence for every interleaving of any history of such steps with the data path, as long as no
    hand-off is given up (no ASendTimeout, no CForwardDrop: the property's five-second clause):
    nothing is lost, duplicated, reordered or altered - what the receiver has is a prefix of what
    the sender wrote, and together with what is in flight and pending it is all of it *)
Theorem C02_no_corruption : forall sigma l l',
  link_ok l -> Forall mact_ok sigma -> mixed_run l sigma = Some l' ->
  link_ok l' /\ sink_bytes l' ++ flow (l_stubs l') ++ pending l' = stream l.
Proof. intros sigma l l' H1 H2 H3. destruct (mixed_run_inv sigma l l' H1 H2 H3) as [Ha Hb]. split; [exact Ha|exact Hb]. Qed.
Print Assumptions C02_no_corruption.

(** an interrupted stage writes back what it holds before it returns (the contract of
    CREATING_TOXICS.md), for every built-in toxic in every wait *)
Theorem C02_interrupt_holds : forall tx now s,
  wf tx s -> wf tx (on_interrupt now s) /\ held (on_interrupt now s) = held s.
Proof. exact on_interrupt_contract. Qed.
Print Assumptions C02_interrupt_holds.

(** the flush timeout of RemoveToxic and of the bandwidth toxic is five seconds (extracted) *)
Theorem C02_five_seconds : remove_flush_timeout_ns = 5000000000 /\ flush_timeout_ns = 5000000000.
Proof. split; reflexivity. Qed.
Print Assumptions C02_five_seconds.

(** regenerated ordering facts the control steps of Model/Reconf.v rest on: a stage that is handing a
    chunk on cannot be interrupted (sends are plain statements, never select arms); the per-connection
    state of a stateful toxic survives every restart; RemoveToxic drops the stub on every way out *)
Theorem C02_code_facts :
  toxic_sends_are_plain = true /\ state_created_only_for_new_stubs = true /\ remove_always_splices = true.
Proof. repeat split; reflexivity. Qed.
Print Assumptions C02_code_facts.

(** non-vacuity: a latency stage interrupted mid-sleep, its stub removed while two chunks are
    queued, on a concrete link: the control steps are enabled and the stream is intact *)
Example C02_nonvacuous :
  let l0 := link_init [(TLatency 100 0, true)] [SWrite 0 [1;2;3]; SWrite 0 [4;5]; SWrite 0 [6]] [] in
  exists l1 l2, run_quiet 40 0 l0 = Some l1 /\
    mixed_run l1 [MCtl (CInterrupt 1); MData (AMove 1); MCtl (CInterrupt 0); MCtl (CForward 1); MCtl (CForward 1);
                  MCtl (CDelete 1); MCtl (CRestart 0 TNoop true)] = Some l2 /\
    sink_bytes l2 = [1;2;3;4;5;6] /\ length (l_stubs l2) = 1%nat.
Proof. eexists. eexists. split; [vm_compute; reflexivity|]. split; [vm_compute; reflexivity|]. split; reflexivity. Qed.

(** C02 — reconfiguring toxics never corrupts a live stream.
    [mixed_run] interleaves, in any order, the data-path actions of a link (reader, stages, timers,
    hand-offs, writer, time passing) with the control steps that AddToxic / UpdateToxic /
    RemoveToxic / InterruptToxic / Run perform on it (Model/Reconf.v). *)
From TP Require Import Model.Prelude Extracted Model.Toxics Model.Timed Model.Reconf
     Model.ReconfRun Proofs.StageContract Proofs.LinkInv Proofs.ReconfInv Proofs.ReconfRunProofs.

(** every single control step - an interrupt landing in any wait of any stage, a stage restarted
    with any data-preserving toxic and any toxicity decision, a stub appended, a queued chunk
    flushed past a removed toxic, the stub spliced out - keeps delivered ++ in flight ++ pending
    equal to the source stream *)
Theorem C02_control_step : forall l a l',
  link_ok l -> ctl_ok l a -> ctl_step l a = Some l' -> link_ok l' /\ stream l' = stream l.
Proof. exact ctl_preserves. Qed.
Print Assumptions C02_control_step.

(** hence for every interleaving of any history of such steps with the data path, as long as no
    hand-off is given up (no ASendTimeout, no CForwardDrop: the property's five-second clause):
    nothing is lost, duplicated, reordered or altered - what the receiver has is a prefix of what
    the sender wrote, and together with what is in flight and pending it is all of it *)
Theorem C02_no_corruption : forall sigma l l',
  link_ok l -> run_ok l sigma -> mixed_run l sigma = Some l' ->
  link_ok l' /\ sink_bytes l' ++ flow (l_stubs l') ++ pending l' = stream l.
Proof. intros sigma l l' H1 H2 H3. destruct (mixed_run_inv sigma l l' H1 H2 H3) as [Ha Hb]. split; [exact Ha|exact Hb]. Qed.
Print Assumptions C02_no_corruption.

(** histories without attribute writes need no look at the states: it is enough that no hand-off is
    given up, no timeout toxic is cut out and every toxic started is data-preserving *)
Theorem C02_static_histories : forall sigma, Forall mact_static_ok sigma -> forall l, run_ok l sigma.
Proof. exact static_run_ok. Qed.
Print Assumptions C02_static_histories.

(** an update writes the new attributes into the toxic object the running stage reads, before it
    interrupts the stage. That write is admitted in every state of every stage, for every new value
    of the same toxic type - the stage stays well-formed (this is where the bandwidth race of finding
    F13 was: the fact [bw_cut_uses_tested_rate] is regenerated from toxics/bandwidth.go) *)
Theorem C02_attribute_write : forall l i tx s,
  bw_cut_uses_tested_rate = true -> link_ok l -> nth_error (l_stubs l) i = Some s ->
  same_kind (s_tx s) tx = true -> ctl_ok l (CSetTx i tx).
Proof. exact setx_ok. Qed.
Print Assumptions C02_attribute_write.

Theorem C02_bandwidth_cuts_with_the_tested_rate : bw_cut_uses_tested_rate = true.
Proof. reflexivity. Qed.
Print Assumptions C02_bandwidth_cuts_with_the_tested_rate.

(** the executable reconfiguration runs that are compared with the real code to the nanosecond
    (AddToxic / UpdateToxic / RemoveToxic as processes over these control steps, Model/ReconfRun.v)
    are interleavings of this system, under either resolution of the scheduler's choices and for the
    guided search over them: the theorems above are about the very runs that are replayed *)
Theorem C02_executable_runs_are_interleavings : forall pol fuel horizon r r',
  rrun_quiet pol fuel horizon r = Some r' -> exists sigma, mixed_run (r_l r) sigma = Some (r_l r').
Proof. exact rrun_quiet_mixed. Qed.
Print Assumptions C02_executable_runs_are_interleavings.

Theorem C02_searched_runs_are_interleavings : forall fuel horizon obs oc r r',
  rsearch fuel horizon obs oc r = Some r' -> exists sigma, mixed_run (r_l r) sigma = Some (r_l r').
Proof. exact rsearch_mixed. Qed.
Print Assumptions C02_searched_runs_are_interleavings.

(** an interrupted stage writes back what it holds before it returns (the contract of
    CREATING_TOXICS.md), for every built-in toxic in every wait *)
Theorem C02_interrupt_holds : forall tx now s,
  wf tx s -> wf tx (on_interrupt now s) /\ held (on_interrupt now s) = held s.
Proof. exact on_interrupt_contract. Qed.
Print Assumptions C02_interrupt_holds.

(** the flush timeout of RemoveToxic and of the bandwidth toxic is five seconds (extracted) *)
Theorem C02_five_seconds : remove_flush_timeout_ns = 5000000000 /\ flush_timeout_ns = 5000000000.
Proof. split; reflexivity. Qed.
Print Assumptions C02_five_seconds.

(** regenerated ordering facts the control steps of Model/Reconf.v rest on: a stage that is handing a
    chunk on cannot be interrupted (sends are plain statements, never select arms); the per-connection
    state of a stateful toxic survives every restart; RemoveToxic drops the stub on every way out; and the
    shape of the operations that Model/ReconfRun.v follows: attributes and toxicity are stored before the
    stages are interrupted, InterruptToxic has no give-up, the operations reach stages through it alone,
    AddToxic connects and starts stages only after the interrupt succeeded, Run decides on every start *)
Theorem C02_code_facts :
  toxic_sends_are_plain = true /\ state_created_only_for_new_stubs = true /\ remove_always_splices = true /\
  update_writes_before_interrupt = true /\ interrupt_is_unbounded = true /\ ops_use_plain_interrupt = true /\
  add_connects_after_interrupt = true /\ run_decides_on_every_start = true.
Proof. repeat split; reflexivity. Qed.
Print Assumptions C02_code_facts.

(** non-vacuity: a latency stage interrupted mid-sleep, its stub removed while two chunks are
    queued, on a concrete link: the control steps are enabled and the stream is intact *)
Example C02_nonvacuous :
  let l0 := link_init [(TLatency 100 0, true)] [SWrite 0 [1;2;3]; SWrite 0 [4;5]; SWrite 0 [6]] [] in
  exists l1 l2, run_quiet 40 0 l0 = Some l1 /\
    mixed_run l1 [MCtl (CInterrupt 1); MData (AMove 1); MCtl (CInterrupt 0); MCtl (CForward 1); MCtl (CForward 1);
                  MCtl (CDelete 1); MCtl (CRestart 0 TNoop true)] = Some l2 /\
    sink_bytes l2 = [1;2;3;4;5;6] /\ length (l_stubs l2) = 1%nat.
Proof. eexists. eexists. split; [vm_compute; reflexivity|]. split; [vm_compute; reflexivity|]. split; reflexivity. Qed.

(** non-vacuity of the executable process: a latency toxic removed while a chunk sleeps in it and two
    more are queued: the operation runs to completion, the stub is spliced out, everything arrives *)
Example C02_executable_nonvacuous :
  let r0 := rrun_init [(TLatency 100 0, true)] [SWrite 0 [1;2;3]; SWrite 0 [4;5]; SWrite 0 [6]; SClose 500000000] []
                      [(50000000, ORemove 1 true)] in
  exists r1, rrun_quiet false 200 1000000000 r0 = Some r1 /\
    sink_bytes (r_l r1) = [1;2;3;4;5;6] /\ length (l_stubs (r_l r1)) = 1%nat /\ r_ph r1 = PIdle /\
    map fst (rev (l_trace (r_l r1))) = [50000000; 50000000; 50000000].
Proof. eexists. split; [vm_compute; reflexivity|]. repeat split; reflexivity. Qed.

(** C16 — concurrent requests on a proxy take effect atomically.
    The effect of create / delete / single-entry populate lies inside one critical section of the
    proxy collection, the effect of toxic add / update / remove inside one critical section of the
    proxy's toxic collection (facts extracted from the source). A complete schedule of k such
    requests therefore is a sequential run of [api_step] in the order of those sections: a
    linearization consistent with real time (a section lies between invocation and response).
    The theorems say what every such order implies. *)
From Coq Require Import String.
From TP Require Import Model.Prelude Extracted Model.Json Model.Api Proofs.ConcProofs.

Theorem C16_single_section_handlers : collection_mutators_atomic = true /\ toxic_mutators_atomic = true.
Proof. split; reflexivity. Qed.
Print Assumptions C16_single_section_handlers.

(** of any number of concurrent creates of one name - same or different listen addresses - at
    most one succeeds, in every order of their critical sections *)
Theorem C16_one_create_wins : forall e name, name <> ""%string ->
  forall (specs : list (string * string)) s,
  Forall (fun su => snd su <> ""%string) specs ->
  (count_status status_created (fst (run_resps e s (map (fun su => create_req name (fst su) (snd su)) specs))) <= 1)%nat /\
  (find_proxy s name <> None ->
   count_status status_created (fst (run_resps e s (map (fun su => create_req name (fst su) (snd su)) specs))) = 0%nat).
Proof. exact one_create_wins. Qed.
Print Assumptions C16_one_create_wins.

(** of any number of concurrent deletes of an existing proxy exactly one succeeds *)
Theorem C16_one_delete_wins : forall e name, name <> ""%string -> forall (k : nat) s,
  NoDup (map p_name s) ->
  count_status status_no_content (fst (run_resps e s (repeat (delete_req name) k))) =
  match find_proxy s name with Some _ => Nat.min 1 k | None => 0%nat end.
Proof. exact one_delete_wins. Qed.
Print Assumptions C16_one_delete_wins.

(** finding F9 (known): enable / disable / update are two sections - the lookup under the
    collection's read lock (and the defaults read without any lock), then Proxy.Update under the
    proxy's lock - so a delete can fall in between and Update then starts a proxy nobody lists *)
Theorem C16_update_is_two_sections : proxy_update_two_sections = true.
Proof. reflexivity. Qed.
Print Assumptions C16_update_is_two_sections.

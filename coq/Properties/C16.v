(** C16 — concurrent requests on a proxy take effect atomically.
    The effect of create / delete / single-entry populate lies inside one critical section of the
    proxy collection, the effect of toxic add / update / remove inside one critical section of the
    proxy's toxic collection (facts extracted from the source). A complete schedule of k such
    requests therefore is a sequential run of [api_step] in the order of those sections: a
    linearization consistent with real time (a section lies between invocation and response).
    The theorems say what every such order implies. *)
From Coq Require Import String.
From Coq Require Import List Relations.
From TP Require Import Model.Prelude Extracted Model.Json Model.Api Proofs.ConcProofs.
From TP Require Model.LockOrder Proofs.LockOrderProofs.

Theorem C16_single_section_handlers : collection_mutators_atomic = true /\ toxic_mutators_atomic = true.
Proof. split; reflexivity. Qed.
Print Assumptions C16_single_section_handlers.

(** of any number of concurrent creates of one name - same or different listen addresses - at
    most one succeeds, in every order of their critical sections *)
Theorem C16_one_create_wins : forall e name, name <> ""%string ->
  forall (specs : list (string * string)) s,
  Forall (fun su => snd su <> ""%string) specs ->
  (count_status status_created (fst (run_resps e s (map (fun su => create_req name (fst su) (snd su)) specs))) <= 1)%nat /\
  (find_proxy s name <> None ->
   count_status status_created (fst (run_resps e s (map (fun su => create_req name (fst su) (snd su)) specs))) = 0%nat).
Proof. exact one_create_wins. Qed.
Print Assumptions C16_one_create_wins.

(** of any number of concurrent deletes of an existing proxy exactly one succeeds *)
Theorem C16_one_delete_wins : forall e name, name <> ""%string -> forall (k : nat) s,
  NoDup (map p_name s) ->
  count_status status_no_content (fst (run_resps e s (repeat (delete_req name) k))) =
  match find_proxy s name with Some _ => Nat.min 1 k | None => 0%nat end.
Proof. exact one_delete_wins. Qed.
Print Assumptions C16_one_delete_wins.

(** finding F9 (known): enable / disable / update are two sections - the lookup under the
    collection's read lock (and the defaults read without any lock), then Proxy.Update under the
    proxy's lock - so a delete can fall in between and Update then starts a proxy nobody lists *)
Theorem C16_update_is_two_sections : proxy_update_two_sections = true.
Proof. reflexivity. Qed.
Print Assumptions C16_update_is_two_sections.

(** No deadlock among the locks. [lock_edges] is regenerated from the working tree: every pair
    (held, requested) over all functions of the two packages - the mutexes of the proxy collection,
    a proxy, its connection list, its toxic collection and the toxic registry, plus the tokens of
    goroutines somebody waits for (the two tombs of the accept loop, the [started] handshake).
    The relation is acyclic (decided by computing a longest-path ranking inside Coq) ... *)
Theorem C16_lock_order_acyclic : LockOrder.lock_order_ok lock_edges = true.
Proof. exact LockOrderProofs.extracted_lock_order_ok. Qed.
Print Assumptions C16_lock_order_acyclic.

(** ... hence in every state - any number of threads, of proxies, of held locks - whose threads
    request while holding only what the relation allows, the waits-for graph has no cycle ... *)
Theorem C16_no_cycle_of_waiting_requests : forall st,
  LockOrderProofs.follows lock_edges st ->
  forall i, ~ clos_trans nat (LockOrderProofs.waits_for st) i i.
Proof. exact LockOrderProofs.extracted_no_cycle. Qed.
Print Assumptions C16_no_cycle_of_waiting_requests.

(** ... and from every thread, following who holds what it waits for, a thread that waits for no
    lock is reached within [bound] steps: somebody can always run *)
Theorem C16_somebody_runs : forall st i,
  LockOrderProofs.follows lock_edges st ->
  LockOrder.blocker st (LockOrder.chase (LockOrder.bound (LockOrder.compute_ranks lock_edges)) st i) = None.
Proof. exact LockOrderProofs.extracted_chains_end. Qed.
Print Assumptions C16_somebody_runs.

(** the premise is met by a stop request waiting for an accept loop that waits for a toxic request *)
Example C16_lock_order_nonvacuous :
  LockOrder.followsb lock_edges LockOrderProofs.stop_state = true /\
  LockOrder.blocker LockOrderProofs.stop_state 0 = Some 1%nat /\
  LockOrder.chase 3 LockOrderProofs.stop_state 0 = 3%nat /\
  LockOrder.blocker LockOrderProofs.stop_state 3 = None.
Proof. exact LockOrderProofs.stop_state_follows. Qed.

(** and it is tight: one more edge (the proxy's lock requested under the toxic collection's) admits
    a state in which everybody waits, and the check rejects the relation *)
Example C16_inverted_order_deadlocks :
  let es := (("ToxicCollection", "Proxy")%string :: lock_edges) in
  LockOrder.lock_order_ok es = false /\ LockOrder.followsb es LockOrderProofs.inverted_state = true /\
  forallb (fun i => match LockOrder.blocker LockOrderProofs.inverted_state i with Some _ => true | None => false end)
          [0; 1; 2; 3]%nat = true.
Proof. exact LockOrderProofs.inverted_order_deadlocks. Qed.

(** the same along executions: threads acquire (when the relation allows it under everything they
    hold; they get the lock if nobody holds it and wait otherwise) and release one operation at a
    time, any number of threads and lock instances, from the state in which nobody holds anything:
    every state reached has an acyclic waits-for graph and a thread that can run *)
Theorem C16_executions_never_deadlock : forall n ops st,
  LockOrder.lrun lock_edges (LockOrder.idle_threads n) ops = Some st ->
  (forall i, ~ clos_trans nat (LockOrderProofs.waits_for st) i i) /\
  (forall i, LockOrder.blocker st (LockOrder.chase (LockOrder.bound (LockOrder.compute_ranks lock_edges)) st i) = None).
Proof. exact LockOrderProofs.executions_never_deadlock. Qed.
Print Assumptions C16_executions_never_deadlock.

(** such an execution with waiting in it reaches the state of the example above *)
Example C16_execution_nonvacuous :
  LockOrder.lrun lock_edges (LockOrder.idle_threads 4)
       [LockOrder.OAcq 3 ("ToxicCollection", 0); LockOrder.OAcq 2 ("acceptTomb", 0); LockOrder.OAcq 1 ("tomb", 0);
        LockOrder.OAcq 0 ("Proxy", 0); LockOrder.OAcq 0 ("tomb", 0); LockOrder.OAcq 1 ("acceptTomb", 0);
        LockOrder.OAcq 2 ("ToxicCollection", 0)]%string%nat = Some LockOrderProofs.stop_state.
Proof. exact LockOrderProofs.stop_execution. Qed.

(** C03 — a disabled or deleted proxy is really down; enabling brings it back (partial: the model
    states which close calls have happened before stop() returns and that nothing is registered
    afterwards; that the kernel then refuses connections and the peers see the end is observed on
    real sockets). [pstep] is the lifecycle of one proxy incarnation over all schedules of clients
    connecting, upstream dials succeeding or failing, links ending at any time, and the stop
    handshake between stop(), freeBlocker and the accept loop. *)
From Coq Require Import String.
From TP Require Import Model.Prelude Extracted Model.Proxy Proofs.ProxyProofs Model.Json Model.Api.

(** the facts about proxy.go / link.go the theorem rests on, extracted from the source *)
Theorem C03_code_facts :
  free_blocker_waits_for_accept_loop = true /\ conn_key_is_dest = true /\
  registers_before_links = true /\ stop_waits_then_closes = true /\ writer_deregisters_its_name = true.
Proof. repeat split; reflexivity. Qed.
Print Assumptions C03_code_facts.

(** once stop() has returned: the listener is closed, the accept loop has ended, and every socket
    of every connection ever accepted - client side and upstream side - is closed *)
Theorem C03_stop_is_down : forall l s,
  prun px_init l = Some s -> x_stop s = SReturned ->
  x_listening s = false /\ x_acc s = ADone /\ x_open s = [].
Proof. exact (stop_is_down (proj1 C03_code_facts) (proj2 (proj2 (proj2 (proj2 C03_code_facts))))). Qed.
Print Assumptions C03_stop_is_down.

(** and it stays that way whatever happens next: no registration, no new socket *)
Theorem C03_nothing_after_stop : forall l s a s',
  prun px_init l = Some s -> x_stop s = SReturned -> pstep s a = Some s' ->
  x_open s' = [] /\ x_acc s' = ADone /\ x_listening s' = false.
Proof. exact (nothing_after_stop (proj1 C03_code_facts) (proj2 (proj2 (proj2 (proj2 C03_code_facts))))). Qed.
Print Assumptions C03_nothing_after_stop.

(** at the API level: disable, delete and a re-addressing update end with the old incarnation
    stopped (enabled = false in the intermediate state) before the response *)
Theorem C03_disable_stops : forall e s name p,
  find_proxy s name = Some p -> lookup_env e (p_listen p) <> None ->
  p_listen p = match lookup_env e (p_listen p) with Some a => a_resolved a | None => p_listen p end ->
  exists p', fst (h_proxy_update e s name (BJson (JObj [("enabled"%string, JBool false)]))) = mkResp status_ok (PProxy p') /\
             p_enabled p' = false.
Proof.
  intros e s name p Hf Hl Hres. unfold h_proxy_update. rewrite Hf. simpl.
  destruct (lookup_env e (p_listen p)) as [a|] eqn:Ea; [|congruence].
  rewrite <- Hres. rewrite !String.eqb_refl. simpl.
  destruct (p_enabled p) eqn:Hen; simpl; eexists; split; try reflexivity; simpl; auto.
Qed.
Print Assumptions C03_disable_stops.

Theorem C03_delete_removes : forall s name p,
  find_proxy s name = Some p ->
  h_proxy_delete s name = (mkResp status_no_content PNone, remove_proxy s name).
Proof. intros s name p H. unfold h_proxy_delete. now rewrite H. Qed.
Print Assumptions C03_delete_removes.

(** a populate entry that replaces a proxy stops the old incarnation - directly in the branch that found
    it, before the replacement is started or filed, whatever the replacement's address and enabled flag
    (regenerated from ProxyCollection.AddOrReplace); what stop() then guarantees is the lifecycle theorem *)
Theorem C03_replace_stops_the_old_proxy : replace_stops_the_old_proxy = true.
Proof. reflexivity. Qed.
Print Assumptions C03_replace_stops_the_old_proxy.

(** C09 — bandwidth toxic never lets more than rate KB/s through. Statements about
    toxics/bandwidth.go as modelled; the sleep increment, the split test, the instalment size and
    length and the units are extracted from the source. *)
From TP Require Import Model.Prelude Extracted Model.Toxics Proofs.StageContract Proofs.StageRun Proofs.C09Proofs.

(** the accumulated sleep is exactly credit + floor(len * 10^6 / rate) ns (Go's truncating
    Duration division), for rates and lengths that do not overflow *)
Theorem C09_sleep_exact : forall acc len rate,
  rate_ok rate -> 0 <= len <= 4294967296 -> - two63 / 2 <= acc <= 0 ->
  bw_sleep_add acc len rate = acc + dur len rate.
Proof. exact bw_sleep_add_exact. Qed.
Print Assumptions C09_sleep_exact.

(** a chunk of at most 100*rate bytes is forwarded whole, unchanged, at
    pick-up + max(0, credit + floor(len*10^6/rate)): never earlier than its budget allows, and no
    later when the receiver is ready; oversleep becomes (non-positive) credit for the next chunk *)
Theorem C09_small_chunk : forall rate ps at_ acc (c : chunk) fuel,
  (1 < fuel)%nat -> rate_ok rate -> - two63 / 2 <= acc <= 0 ->
  zlen (cdata c) <= rate * 100 -> zlen (cdata c) <= 4294967296 ->
  let sl := acc + dur (zlen (cdata c)) rate in
  let s1 := fst (on_input (TBandwidth rate) ps at_ [] (Some c) (Idle acc None)) in
  let r := stage_emit (TBandwidth rate) ps at_ fuel None s1 in
  fst (fst r) = [(at_ + Z.max 0 sl, cdata c)] /\ final_st r = Idle (Z.min 0 sl) None.
Proof. exact bw_small_chunk. Qed.
Print Assumptions C09_small_chunk.

(** data above 100 ms worth of budget is released in instalments of exactly 100*rate bytes every
    100 ms *)
Theorem C09_instalment : forall rate now (p : chunk) sl,
  rate_ok rate -> rate * 100 < zlen (cdata p) ->
  bw_loop rate p sl now = BwInst p rate sl (now + bw_instalment_ns) /\
  bw_instalment_ns = 100000000 /\
  on_timer (TBandwidth rate) (now + bw_instalment_ns) (BwInst p rate sl (now + bw_instalment_ns)) =
    Send (mkChunk (slice_to (cdata p) (rate * 100)) (cts p))
         (KBwLoop (mkChunk (slice_from (cdata p) (rate * 100)) (cts p)) (sl - bw_instalment_ns)) /\
  zlen (slice_to (cdata p) (rate * 100)) = rate * 100.
Proof. exact bw_instalment. Qed.
Print Assumptions C09_instalment.

(** the rate bound, arithmetic core (partial: the composition with the stage run is by the
    correspondence, not by a theorem): under the credit scheme the k-th emission is no earlier than
    first pick-up + D_1 + ... + D_k *)
Theorem C09_rate_bound_partial : forall steps a p, a <= 0 -> sched_ok a p steps -> steps <> [] ->
  p + a + sumD steps <= last_emit p steps.
Proof. exact rate_arith. Qed.
Print Assumptions C09_rate_bound_partial.

Theorem C09_truncation_term : forall len rate, 0 < rate -> 0 <= len ->
  len * 1000000 - rate < dur len rate * rate <= len * 1000000.
Proof. exact dur_bound. Qed.
Print Assumptions C09_truncation_term.

Theorem C09_order_content : forall rate, preserving (TBandwidth rate).
Proof. intros; exact I. Qed.
Print Assumptions C09_order_content.

(** ---- sequences of chunks (each at most 100 ms worth of budget, i.e. not split into instalments)
    through the stage with a ready receiver: the stage's run is the closed form [bw_sched] - chunk k,
    picked up at p_k with credit a_k <= 0, leaves whole at p_k + max(0, a_k + floor(L_k*10^6/rate))
    and the oversleep is credited on - for every rate, every sequence, every pacing *)
From TP Require Import Proofs.StageFeed Proofs.FeedProofs.

Theorem C09_sequence_closed_form : forall rate, rate_ok rate -> forall fuel, (1 < fuel)%nat -> forall ps arr acc,
  - two63 / 2 <= acc <= 0 -> Forall (fun pc => small_for rate (snd pc)) arr ->
  feed (TBandwidth rate) fuel ps (Idle acc None) (arrivals arr) =
  (fst (bw_sched rate acc arr), Idle (snd (bw_sched rate acc arr)) None, ps).
Proof. exact bw_feed. Qed.
Print Assumptions C09_sequence_closed_form.

(** THE RATE BOUND for such sequences: whenever each chunk is picked up no earlier than the previous
    one left (the stage is sequential), by the time chunk k leaves at most rate bytes per millisecond
    have been forwarded since the first pick-up, plus one nanosecond's worth per chunk (Go's
    truncating division): 10^6 * bytes(1..k) < rate * (e_k - p_1 - credit) + rate * k *)
Theorem C09_rate_bound : forall rate, 0 < rate -> forall arr acc base,
  acc <= 0 -> picked_after base arr (fst (bw_sched rate acc arr)) ->
  forall k e d, nth_error (fst (bw_sched rate acc arr)) k = Some (e, d) ->
  1000000 * sumlen (firstn (S k) arr) < rate * (e - base - acc) + rate * Z.of_nat (S k).
Proof. exact bw_rate_bound. Qed.
Print Assumptions C09_rate_bound.

(** C18 — ChanWriter/ChanReader form a lossless FIFO byte pipe.
    Statements only; every proof is [exact] of a lemma in Proofs/. The theorems are about the
    model of stream/io_chan.go instantiated with what the translator extracted from the current
    source ([Extracted.read_early], [Extracted.writer_copies]). An action list is a list of writes,
    a list of read-buffer sizes and an availability schedule all at once. *)
From TP Require Import Model.Prelude Model.Stream Proofs.StreamProofs Proofs.C18Proofs Extracted.

Theorem C18_lossless : forall (l : list action) (p : pipe),
  run read_early writer_copies pipe_init l = Some p ->
  is_prefix (returned p) (script_written l) /\
  returned p ++ carry_bytes p ++ queued p = script_written l /\
  (eof p = true -> returned p = script_written l /\ closed p = true).
Proof. exact c18_lossless. Qed.
Print Assumptions C18_lossless.

Theorem C18_read_bounded_progress : forall (l : list action) (p p' : pipe) (o : nat) (intr : bool),
  run read_early writer_copies pipe_init l = Some p ->
  step read_early writer_copies p (ARead o intr) = Some p' ->
  lastn p' <= Z.of_nat o /\
  ((0 < o)%nat -> 0 < lastn p' \/ eof p' = true \/ intr = true \/
                  queue p' = tl (queue p) /\ (queue p <> [] \/ closed p = true)).
Proof. exact c18_read_bounded_progress. Qed.
Print Assumptions C18_read_bounded_progress.

Theorem C18_eof_after_close : forall (l : list action) (p : pipe) (o : nat),
  run read_early writer_copies pipe_init l = Some p ->
  closed p = true -> queue p = [] -> carry_bytes p = [] -> (0 < o)%nat ->
  exists p', step read_early writer_copies p (ARead o false) = Some p' /\ eof p' = true /\ lastn p' = 0.
Proof. exact c18_eof_after_close. Qed.
Print Assumptions C18_eof_after_close.

Theorem C18_no_alias : forall (l : list action) (p : pipe),
  run read_early writer_copies pipe_init l = Some p ->
  exists q, run read_early writer_copies pipe_init (erase_mutate l) = Some q /\
            returned p = returned q /\ eof p = eof q /\ lastn p = lastn q.
Proof. exact c18_no_alias. Qed.
Print Assumptions C18_no_alias.

Theorem C18_interrupt_no_loss : forall (b : bytes) (o : nat) av buf' out c,
  read read_early (Some b) o av true = RRet buf' out EInterrupted c ->
  b = [] /\ out = [] /\ buf' = Some [] /\ c = false.
Proof. exact c18_interrupt_no_loss. Qed.
Print Assumptions C18_interrupt_no_loss.

(** Regression witnesses (about fixed definitions, independent of the current source). *)
Theorem C18_lossless_refuted_pinned :
  exists l p, run early_pinned true pipe_init l = Some p /\ ~ is_prefix (returned p) (script_written l).
Proof. exact lossless_refuted_pinned. Qed.
Print Assumptions C18_lossless_refuted_pinned.

Theorem C18_no_alias_needs_copy :
  exists l p, run (fun o n _ => n =? o) false pipe_init l = Some p /\ returned p <> script_written l.
Proof. exact no_alias_needs_copy. Qed.
Print Assumptions C18_no_alias_needs_copy.

(** [io.Copy] into the writer goes through [Write], and out of the reader through [Read], which is what
    the theorems above are about: the writer has no [ReadFrom] and the reader no [WriteTo] (their
    exported method sets, regenerated from stream/io_chan.go) *)
From Coq Require Import String List.
Theorem C18_copy_goes_through_write_and_read :
  chan_writer_methods = ["Close"; "Write"]%string /\ chan_reader_methods = ["Read"; "SetInterrupt"]%string.
Proof. split; reflexivity. Qed.
Print Assumptions C18_copy_goes_through_write_and_read.

(** C10 — timeout toxic black-holes data and closes after exactly the configured time. *)
From TP Require Import Model.Prelude Extracted Model.Toxics Model.Timed Proofs.StageContract
     Proofs.StageRun Proofs.StageFeed Proofs.TimingProofs.

(** while a timeout stage runs, nothing is forwarded, whatever arrives and whenever *)
Theorem C10_blackhole : forall t fuel arr ps s,
  wf (TTimeout t) s -> fst (fst (feed (TTimeout t) fuel ps s arr)) = [].
Proof. exact timeout_blackhole. Qed.

(** the timer is armed once, when the toxic takes effect on the connection (extracted from the
    source: [timeout_rearms] says whether time.After sits inside the loop) ... *)
Theorem C10_armed_once : timeout_rearms = false.
Proof. reflexivity. Qed.

(** ... so for T > 0 the deadline start + T survives any amount of traffic: the stub closes at
    start + T, no earlier (C08_not_early applies to every timer) and no later *)
Theorem C10_closes_at_T : forall t fuel start arr ps,
  data_only arr -> timeout_positive t = true ->
  feed (TTimeout t) fuel ps (init_state (TTimeout t) ps start) arr =
  ([], Idle 0 (Some (start + timeout_ns t)), ps).
Proof. exact (timeout_deadline_fixed C10_armed_once). Qed.

Theorem C10_timer_closes : forall t now acc dl, on_timer (TTimeout t) now (Idle acc (Some dl)) = Closing.
Proof. exact timeout_fires. Qed.

Theorem C10_unit_is_ms : forall t, ms_ok t -> timeout_ns t = t * 1000000.
Proof. exact ms_ns. Qed.

(** T = 0: no timer exists; the connection is held open until the sender closes *)
Theorem C10_T0_holds : forall t fuel start arr ps,
  data_only arr -> timeout_positive t = false ->
  feed (TTimeout t) fuel ps (init_state (TTimeout t) ps start) arr = ([], Idle 0 None, ps) /\
  stub_deadline (mkStub (TTimeout t) true (Idle 0 None) ps [] 0 false false) = None.
Proof. exact timeout_zero_never_closes. Qed.

(** regression witness for the re-arming variant (finding F2, repaired in /repo): T = 100 ms and a
    chunk every 60 ms move the deadline to 280 ms after three chunks *)
Theorem C10_rearm_refuted :
  let arm now := Some (now + 100000000) in
  fold_left (fun (_ : option Z) now => arm now) [60000000; 120000000; 180000000] (arm 0) = Some 280000000.
Proof. reflexivity. Qed.

(** C10 — timeout toxic black-holes data and closes after exactly the configured time. *)
From TP Require Import Model.Prelude Extracted Model.Toxics Model.Timed Proofs.StageContract
     Proofs.StageRun Proofs.StageFeed Proofs.TimingProofs Model.ReconfRun Proofs.ReconfRunProofs.

(** while a timeout stage runs, nothing is forwarded, whatever arrives and whenever *)
Theorem C10_blackhole : forall t fuel arr ps s,
  wf (TTimeout t) s -> fst (fst (feed (TTimeout t) fuel ps s arr)) = [].
Proof. exact timeout_blackhole. Qed.
Print Assumptions C10_blackhole.

(** the timer is armed once, when the toxic takes effect on the connection (extracted from the
    source: [timeout_rearms] says whether time.After sits inside the loop) ... *)
Theorem C10_armed_once : timeout_rearms = false.
Proof. reflexivity. Qed.
Print Assumptions C10_armed_once.

(** ... so for T > 0 the deadline start + T survives any amount of traffic: the stub closes at
    start + T, no earlier (C08_not_early applies to every timer) and no later *)
Theorem C10_closes_at_T : forall t fuel start arr ps,
  data_only arr -> timeout_positive t = true ->
  feed (TTimeout t) fuel ps (init_state (TTimeout t) ps start) arr =
  ([], Idle 0 (Some (start + timeout_ns t)), ps).
Proof. exact (timeout_deadline_fixed C10_armed_once). Qed.
Print Assumptions C10_closes_at_T.

Theorem C10_timer_closes : forall t now acc dl, on_timer (TTimeout t) now (Idle acc (Some dl)) = Closing.
Proof. exact timeout_fires. Qed.
Print Assumptions C10_timer_closes.

Theorem C10_unit_is_ms : forall t, ms_ok t -> timeout_ns t = t * 1000000.
Proof. exact ms_ns. Qed.
Print Assumptions C10_unit_is_ms.

(** T = 0: no timer exists; the connection is held open until the sender closes *)
Theorem C10_T0_holds : forall t fuel start arr ps,
  data_only arr -> timeout_positive t = false ->
  feed (TTimeout t) fuel ps (init_state (TTimeout t) ps start) arr = ([], Idle 0 None, ps) /\
  stub_deadline (mkStub (TTimeout t) true (Idle 0 None) ps [] 0 false false) = None.
Proof. exact timeout_zero_never_closes. Qed.
Print Assumptions C10_T0_holds.

(** regression witness for the re-arming variant (finding F2, repaired in /repo): T = 100 ms and a
    chunk every 60 ms move the deadline to 280 ms after three chunks *)
Theorem C10_rearm_refuted :
  let arm now := Some (now + 100000000) in
  fold_left (fun (_ : option Z) now => arm now) [60000000; 120000000; 180000000] (arm 0) = Some 280000000.
Proof. reflexivity. Qed.
Print Assumptions C10_rearm_refuted.

(** ---- removal. RemoveToxic on a timeout toxic interrupts its stage and runs Cleanup, which
    closes the stub ([CInterrupt i] then [CSever i] of Model/Reconf.v; that Cleanup runs before any
    flush is a regenerated ordering fact, see C10_cleanup_before_flush). From any live state of
    the stage: the removal itself delivers nothing, the consumer of the stub sees end-of-stream
    (the next stage, or the writer, which closes the connection), and the stub is from then on a
    wall: on every later schedule it is still dead ... *)
From TP Require Import Model.Reconf Proofs.WallProofs.

Theorem C10_removal_closes : forall l i s acc tmr,
  nth_error (l_stubs l) i = Some s -> s_st s = Idle acc tmr -> s_closed s = false ->
  exists l1 l2,
    ctl_step l (CInterrupt i) = Some l1 /\ ctl_step l1 (CSever i) = Some l2 /\
    wall l2 i /\ sink_bytes l2 = sink_bytes l /\
    match nth_error (l_stubs l2) (S i) with
    | Some t => s_in_closed t = true
    | None => l_sink_closed l2 <> None
    end /\
    (forall sigma l3, sched_run l2 sigma = Some l3 -> wall l3 i).
Proof. exact timeout_removal. Qed.
Print Assumptions C10_removal_closes.

(** ... and a dead stub never acts again: neither its send, its timers, nor a flush, restart,
    splice or second removal aimed at it is enabled. Since the hand-offs to position i+1 are
    exactly stub i's send and the flush of stub i, nothing that is upstream of the removed toxic
    - parked in an earlier stage, in its input buffer, or still to be sent - is ever delivered:
    the stream is not resumed with a hole in it. *)
Theorem C10_wall_is_silent : forall l i, wall l i ->
  sched_step l (AMove i) = None /\ sched_step l (ATimer i) = None /\ sched_step l (ASendTimeout i) = None.
Proof. exact wall_silent_data. Qed.
Print Assumptions C10_wall_is_silent.

Theorem C10_wall_is_silent_ctl : forall l i, wall l i ->
  ctl_step l (CInterrupt i) = None /\ (forall tx eff, ctl_step l (CRestart i tx eff) = None) /\
  ctl_step l (CForward i) = None /\ ctl_step l (CForwardDrop i) = None /\
  ctl_step l (CDelete i) = None /\ ctl_step l (CSever i) = None.
Proof. exact wall_silent_ctl. Qed.
Print Assumptions C10_wall_is_silent_ctl.

(** permanence under later reconfiguration as well (a splice upstream shifts the index down, a stub connected upstream shifts it up) *)
Theorem C10_wall_stays_under_reconfiguration : forall l a l' i, ctl_step l a = Some l' -> wall l i ->
  match a with
  | CDelete j => if (j <? i)%nat then wall l' (i - 1) else wall l' i
  | CInsertAfter j _ _ | CInsertDead j _ => if (j <? i)%nat then wall l' (S i) else wall l' i
  | _ => wall l' i
  end.
Proof. exact wall_ctl. Qed.
Print Assumptions C10_wall_stays_under_reconfiguration.

(** the timeout stage is interruptible in every live state (it never sits in a send) *)
Theorem C10_interruptible : forall now acc tmr,
  mode_of (Idle acc tmr) = MSelect true true tmr /\ on_interrupt now (Idle acc tmr) = Exited.
Proof. intros. split; reflexivity. Qed.
Print Assumptions C10_interruptible.

(** regenerated from link.go on every run: in RemoveToxic the Cleanup call, and the return taken
    when it closed the stub, come before the first WriteOutput and before the goroutine that
    interrupts the previous stub - the order [CInterrupt i; CSever i] above, with no [CForward]
    in between *)
Theorem C10_cleanup_before_flush : remove_cleanup_before_flush = true.
Proof. reflexivity. Qed.
Print Assumptions C10_cleanup_before_flush.

(** the usual position: the timeout toxic is the last of its chain (AddToxic appends). Then after
    its removal the receiver is closed and gets NOTHING more - whatever is parked in earlier stages
    or still arrives - on every schedule: only the last stub ever writes to the receiver
    (Proofs/SinkFrame.v: [sink_writer]) and it is dead *)
From TP Require Import Proofs.SinkFrame.
Theorem C10_removed_last_timeout_delivers_nothing : forall l i s acc tmr,
  nth_error (l_stubs l) i = Some s -> s_st s = Idle acc tmr -> s_closed s = false -> S i = length (l_stubs l) ->
  exists l1 l2,
    ctl_step l (CInterrupt i) = Some l1 /\ ctl_step l1 (CSever i) = Some l2 /\
    l_sink_closed l2 <> None /\
    forall sigma l3, sched_run l2 sigma = Some l3 -> sink_bytes l3 = sink_bytes l.
Proof. exact removed_last_timeout_delivers_nothing. Qed.
Print Assumptions C10_removed_last_timeout_delivers_nothing.

(** who writes to the receiver at all *)
Theorem C10_only_the_last_stub_writes : forall l a l',
  sched_step l a = Some l' ->
  sink_bytes l' = sink_bytes l \/
  (exists j, a = AMove j /\ S j = length (l_stubs l)) \/ (a = AReader /\ l_stubs l = []).
Proof. exact sink_writer. Qed.
Print Assumptions C10_only_the_last_stub_writes.

(** any position of the removed toxic: what the receiver ever gets after the removal is made of what
    was already delivered or inside the stages BELOW the dead stub at that moment - nothing that
    was parked above it, in its input buffer, or arrives later - on every schedule on which no
    hand-off below it is given up (the 5 s clause of C02). [below k] = delivered ++ held at
    positions >= k is changed by no action but stub k-1's own send (Proofs/Cut.v: [cut_step]) *)
From TP Require Import Proofs.StageContract Proofs.LinkInv Proofs.Cut.
Theorem C10_nothing_crosses_a_dead_stub : forall sigma l l' i,
  wall l i -> Forall stub_ok (skipn (S i) (l_stubs l)) ->
  Forall (fun a => forall j, (S i <= j)%nat -> a <> ASendTimeout j) sigma ->
  sched_run l sigma = Some l' ->
  sink_bytes l' ++ flow (skipn (S i) (l_stubs l')) = sink_bytes l ++ flow (skipn (S i) (l_stubs l)) /\ wall l' i.
Proof. exact nothing_crosses_a_wall. Qed.
Print Assumptions C10_nothing_crosses_a_dead_stub.

Theorem C10_cut : forall k l a l',
  (k <= length (l_stubs l))%nat -> Forall stub_ok (skipn k (l_stubs l)) ->
  sched_step l a = Some l' -> ~ crosses k a ->
  below k l' = below k l /\ Forall stub_ok (skipn k (l_stubs l')) /\ length (l_stubs l') = length (l_stubs l).
Proof. exact cut_step. Qed.
Print Assumptions C10_cut.

(** a timeout toxic that is added reaches every connection whose last stub is not closed, however
    long that stage is busy handing data on: AddToxic gives up on a link only when that stub is
    closed, and connects and starts the new stage only after the interrupt succeeded (regenerated
    shape of ToxicLink.AddToxic and ToxicStub.InterruptToxic) *)
Theorem C10_add_gives_up_only_on_closed : forall l p w,
  ReconfRun.interrupt_try l p w = ReconfRun.IFalse -> exists s, nth_error (l_stubs l) p = Some s /\ s_closed s = true /\ w = false.
Proof. exact ReconfRunProofs.interrupt_gives_up_only_on_closed. Qed.
Print Assumptions C10_add_gives_up_only_on_closed.

Theorem C10_add_code_facts :
  interrupt_is_unbounded = true /\ ops_use_plain_interrupt = true /\ add_connects_after_interrupt = true.
Proof. repeat split; reflexivity. Qed.
Print Assumptions C10_add_code_facts.

(** the connection is closed when the stage closes its stub, not when the locks the writer needs
    afterwards are free (regenerated from ToxicLink.write) *)
Theorem C10_close_is_not_held_back : writer_closes_before_deregistering = true.
Proof. reflexivity. Qed.
Print Assumptions C10_close_is_not_held_back.

(** C06 — a rejected request changes nothing. [api_step] is the model of api.go and the
    collections, handler by handler in the order of effects of the Go code; routes, status codes,
    the toxic registry and whether a toxic update decodes into the live object come from the
    source. The server state compared here is the whole configuration the API can show and the
    attribute values every running stage reads. *)
From Coq Require Import String.
From TP Require Import Model.Prelude Extracted Model.Json Model.Api Proofs.ApiProofs.

(** UpdateToxicJson decodes the body into a copy of the toxic and installs it on success *)
Theorem C06_update_decodes_into_copy : update_in_place = false.
Proof. reflexivity. Qed.
Print Assumptions C06_update_decodes_into_copy.

Theorem C06_rejected_unchanged : forall e s r,
  rejected (fst (api_step e s r)) ->
  snd (api_step e s r) = s \/
  (status (fst (api_step e s r)) = status_internal /\
   exists h, fst (route routes (r_meth r) (r_path r) false) = Some h /\
             (h = "ProxyUpdate" \/ h = "Populate" \/ h = "ResetState")%string).
Proof. exact (rejected_unchanged C06_update_decodes_into_copy). Qed.
Print Assumptions C06_rejected_unchanged.

(** ... so every later request - the same one corrected, a read, a change or a removal by name - is
    answered as if the rejected request had never been made, and so is every sequence of them (the
    statement the with / without differential of the check tests on the server) *)
Theorem C06_as_if_never_made : forall e s r rs,
  rejected (fst (api_step e s r)) -> status (fst (api_step e s r)) <> status_internal ->
  api_run e (snd (api_step e s r)) rs = api_run e s rs.
Proof.
  intros e s r rs Hrej Hst. destruct (C06_rejected_unchanged e s r Hrej) as [Heq|[Hint _]].
  - rewrite Heq. reflexivity.
  - contradiction.
Qed.
Print Assumptions C06_as_if_never_made.

Theorem C06_populate_all_or_nothing : forall e s b,
  match b with
  | BJson (JArr items) => snd (dec_populate items) = true \/ populate_valid (fst (dec_populate items)) = false
  | BJson JNull => False
  | _ => True
  end ->
  snd (h_populate e s b) = s /\ 400 <= status (fst (h_populate e s b)) < 500.
Proof. exact populate_all_or_nothing. Qed.
Print Assumptions C06_populate_all_or_nothing.

(** the decoder really is the partial-assignment one (so the theorem above is not vacuous): an
    ill-typed field is skipped, later fields are still assigned, and an error is reported *)
Example C06_partial_decode :
  dec_attrs [("latency", 100); ("jitter", 0)]%string
            (JObj [("latency", JInt 500); ("jitter", JStr "bad")]%string)
  = ([("latency", 500); ("jitter", 0)]%string, true).
Proof. reflexivity. Qed.

(** C14 — toxicity is the per-connection probability that a toxic applies. *)
From TP Require Import Model.Prelude Extracted Model.Toxics Model.Timed Model.Reconf Model.ReconfRun Proofs.LinkFrame Proofs.C14Proofs
     Proofs.ReconfRunProofs.

Theorem C14_zero_never : forall D k, 0 <= k < D -> applies toxicity_cmp k 0 = false.
Proof. exact zero_never. Qed.
Print Assumptions C14_zero_never.

Theorem C14_one_always : forall D k, 0 <= k < D -> applies toxicity_cmp k D = true.
Proof. exact one_always. Qed.
Print Assumptions C14_one_always.

Theorem C14_whole_connection : forall sigma l l',
  sched_run l sigma = Some l' ->
  map (fun s => (s_tx s, s_eff s)) (l_stubs l') = map (fun s => (s_tx s, s_eff s)) (l_stubs l).
Proof. exact whole_connection. Qed.
Print Assumptions C14_whole_connection.

Theorem C14_unaffected_is_noop : forall tx ps inq cap c1 c2 st,
  eff_tx (mkStub tx false st ps inq cap c1 c2) = TNoop.
Proof. exact unaffected_is_noop. Qed.
Print Assumptions C14_unaffected_is_noop.

(** idealised measure (uniform draw over D equally likely values, toxicity m/D): exactly m of the
    D draws make the toxic apply. Uniformity and independence of math/rand are assumed. *)
Theorem C14_measure_partial : forall m (D : nat), 0 <= m <= Z.of_nat D -> count_applies toxicity_cmp m D = m.
Proof. exact measure_exact. Qed.
Print Assumptions C14_measure_partial.

Theorem C14_le_would_break_zero : applies TLe 0 0 = true.
Proof. exact le_would_break_zero. Qed.
Print Assumptions C14_le_would_break_zero.

(** "Changing toxicity through the API takes effect on established connections": the update stores
    the new toxicity before it interrupts the stages, waits for every stage whose stub is not
    closed - however long that stage is busy - and restarts it with a fresh decision. On the model
    of the operation (Model/ReconfRun.v, replayed against the code to the nanosecond): *)
Theorem C14_update_gives_up_only_on_closed : forall l p w,
  interrupt_try l p w = IFalse -> exists s, nth_error (l_stubs l) p = Some s /\ s_closed s = true /\ w = false.
Proof. exact interrupt_gives_up_only_on_closed. Qed.
Print Assumptions C14_update_gives_up_only_on_closed.

Theorem C14_update_restarts_with_the_request : forall r p tx eff,
  r_ph r = PUpd p tx eff true ->
  (exists s, nth_error (l_stubs (r_l r)) p = Some s /\ is_exited s = true /\ s_closed s = false) ->
  exists r', ctl_move r = Some (Some (MCtl (CRestart p tx eff)), r') /\ r_ph r' = PIdle.
Proof. exact update_restarts_with_the_request. Qed.
Print Assumptions C14_update_restarts_with_the_request.

Theorem C14_restart_decides_afresh : forall l p tx eff l',
  ctl_step l (CRestart p tx eff) = Some l' ->
  exists s s', nth_error (l_stubs l) p = Some s /\ nth_error (l_stubs l') p = Some s' /\
    s_tx s' = tx /\ s_eff s' = eff /\ s_inq s' = s_inq s /\
    s_st s' = init_state (if eff then tx else TNoop) (s_ps s') (l_now l).
Proof. exact restart_takes_the_new_toxic. Qed.
Print Assumptions C14_restart_decides_afresh.

(** ... and the shape of the code these rest on, regenerated on every run: Run draws on every start
    and remembers nothing on the stub; UpdateToxicJson stores attributes and toxicity before
    chainUpdateToxic; InterruptToxic is the two-arm select {closed: false | Interrupt: wait for the
    stage, true} with no give-up; the link operations reach the stages through it alone *)
Theorem C14_code_facts :
  run_decides_on_every_start = true /\ update_writes_before_interrupt = true /\
  interrupt_is_unbounded = true /\ ops_use_plain_interrupt = true.
Proof. repeat split; reflexivity. Qed.
Print Assumptions C14_code_facts.

(** every accepted update restarts the stages, so the decision is taken afresh with the new toxicity on
    every open connection whatever else the update changed (regenerated) *)
Theorem C14_update_always_restarts : update_always_restarts = true.
Proof. reflexivity. Qed.
Print Assumptions C14_update_always_restarts.

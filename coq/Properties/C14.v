(** C14 — toxicity is the per-connection probability that a toxic applies. *)
From TP Require Import Model.Prelude Extracted Model.Toxics Model.Timed Proofs.LinkFrame Proofs.C14Proofs.

Theorem C14_zero_never : forall D k, 0 <= k < D -> applies toxicity_cmp k 0 = false.
Proof. exact zero_never. Qed.
Print Assumptions C14_zero_never.

Theorem C14_one_always : forall D k, 0 <= k < D -> applies toxicity_cmp k D = true.
Proof. exact one_always. Qed.
Print Assumptions C14_one_always.

Theorem C14_whole_connection : forall sigma l l',
  sched_run l sigma = Some l' ->
  map (fun s => (s_tx s, s_eff s)) (l_stubs l') = map (fun s => (s_tx s, s_eff s)) (l_stubs l).
Proof. exact whole_connection. Qed.
Print Assumptions C14_whole_connection.

Theorem C14_unaffected_is_noop : forall tx ps inq cap c1 c2 st,
  eff_tx (mkStub tx false st ps inq cap c1 c2) = TNoop.
Proof. exact unaffected_is_noop. Qed.
Print Assumptions C14_unaffected_is_noop.

(** idealised measure (uniform draw over D equally likely values, toxicity m/D): exactly m of the
    D draws make the toxic apply. Uniformity and independence of math/rand are assumed. *)
Theorem C14_measure_partial : forall m (D : nat), 0 <= m <= Z.of_nat D -> count_applies toxicity_cmp m D = m.
Proof. exact measure_exact. Qed.
Print Assumptions C14_measure_partial.

Theorem C14_le_would_break_zero : applies TLe 0 0 = true.
Proof. exact le_would_break_zero. Qed.
Print Assumptions C14_le_would_break_zero.

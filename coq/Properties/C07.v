(** C07 — nothing a client or peer sends can take the service down (partial: "the process is
    still alive and answering" is observed on a real server; the model decides which stage
    transitions can panic or diverge - toxic goroutines have no recover, so that is what kills the
    process). *)
From Coq Require Import String.
From TP Require Import Model.Prelude Extracted Model.Toxics Model.Timed Proofs.GoArith Proofs.SlicerProofs Proofs.StageContract Proofs.C07Proofs
     Model.Json Model.Api Model.Collection Proofs.C04Proofs Model.Reconf Proofs.LinkInv Proofs.ReconfInv Proofs.ReconfRunProofs.

(** every built-in toxic, EVERY attribute value (any int64: negative, zero, extreme), every chunk,
    every draw of the random source, every interrupt: no transition of a stage panics or diverges.
    [wf] is the set of reachable local states (preserved by every transition: C01's stage theorems)
    and [pstate_ok] says a limit_data stage runs on its own stub (C04 below). *)
Theorem C07_stage_total_init : forall tx ps now, pstate_ok tx ps -> mode_of (init_state tx ps now) <> MDead.
Proof. exact stage_total_init. Qed.
Print Assumptions C07_stage_total_init.

Theorem C07_stage_total_input : forall tx ps now draws (c : option chunk) acc tmr,
  wf tx (Idle acc tmr) -> pstate_ok tx ps ->
  mode_of (fst (on_input tx ps now draws c (Idle acc tmr))) <> MDead.
Proof. exact stage_total_input. Qed.
Print Assumptions C07_stage_total_input.

Theorem C07_stage_total_timer : forall tx now s, wf tx s -> mode_of (on_timer tx now s) <> MDead.
Proof. exact stage_total_timer. Qed.
Print Assumptions C07_stage_total_timer.

Theorem C07_stage_total_sent : forall tx ps now (c : chunk) k,
  wf tx (Send c k) -> pstate_ok tx ps -> mode_of (fst (on_sent tx ps now (Send c k))) <> MDead.
Proof. exact stage_total_sent. Qed.
Print Assumptions C07_stage_total_sent.

Theorem C07_stage_total_interrupt : forall tx now s, wf tx s -> mode_of (on_interrupt now s) <> MDead.
Proof. exact stage_total_interrupt. Qed.
Print Assumptions C07_stage_total_interrupt.

(** the slicer's recursion: for every average_size, size_variation, chunk size and draw sequence it
    terminates within size+1 levels, never calls rand.Intn with a non-positive argument, and cuts
    [start, end) into consecutive non-empty pieces *)
Theorem C07_slicer_total : forall fuel avg var start end_ draws,
  start <= end_ -> (Z.to_nat (end_ - start) < fuel)%nat ->
  exists os ds, slicer_chunk fuel avg var start end_ draws = CROk os ds /\
                covers os start end_ /\
                (start < end_ -> pieces_within (end_ - start) os).
Proof. exact slicer_chunk_total. Qed.
Print Assumptions C07_slicer_total.

(** the inputs that killed the pinned code (findings F5a-d, repaired) are harmless on the current
    model, and the pinned arithmetic that made them fatal *)
Theorem C07_f5_inputs_survive :
  dead_after_input (TSlicer 0 0 0) [1] [] = false /\
  dead_after_input (TLatency 0 4611686018427387904) [1] [] = false /\
  (exists l, run_quiet 50 10 (link_init [(TSlicer 10 12 0, true)] [SWrite 0 (repeat 7 23)] [0; 23; 12]) = Some l /\
             existsb (fun s => match s_st s with Panicked _ => true | _ => false end) (l_stubs l) = false) /\
  (exists l, run_quiet 50 1000000000 (link_init [(TBandwidth (-1), true)] [SWrite 0 [1;2;3]] []) = Some l /\
             existsb (fun s => match s_st s with Panicked _ => true | _ => false end) (l_stubs l) = false).
Proof. exact f5_inputs_survive. Qed.
Print Assumptions C07_f5_inputs_survive.

Theorem C07_f5_pinned_arithmetic :
  wrap64 (4611686018427387904 * 2) <= 0 /\
  slice_ok 0 (wrap64 (-1 * 100)) 3 = false /\
  ((23 - 0 - 10 <=? 12) = false)%Z /\ slicer_mid_adj (slicer_mid 0 23) 0 12 = -1 /\
  (forall fuel, slicer_chunk_pinned fuel 0 0 0 1 = None).
Proof. exact f5_pinned_arithmetic. Qed.
Print Assumptions C07_f5_pinned_arithmetic.

(** a stage is only ever started on the stub of its own toxic (C04's alignment), so limit_data
    always finds its own state: the other way to panic is closed *)
Theorem C07_wrong_state_would_panic : forall nb now, mode_of (init_state (TLimitData nb) None now) = MDead.
Proof. exact wrong_state_panics. Qed.
Print Assumptions C07_wrong_state_would_panic.

Theorem C07_stubs_stay_aligned : forall ops, aligned (crun ops).
Proof. exact (run_aligned (eq_refl : remove_always_splices = true)). Qed.
Print Assumptions C07_stubs_stay_aligned.

(** the API handlers are total functions: every request, whatever its method, path, body or
    attribute values, gets an answer and leaves a well-defined state *)
Theorem C07_api_total : forall e s r, exists resp s', api_step e s r = (resp, s').
Proof. intros e s r. destruct (api_step e s r) as [resp s']. eauto. Qed.
Print Assumptions C07_api_total.

(** regenerated from api.go on every run: the API server bounds the time a client may take to send a
    request including its body (http.Server.ReadTimeout). The toxic handlers parse the body while
    they hold the proxy's toxic lock, which the accept loop and every listing need: without the
    bound one stalled upload freezes the proxy for as long as the client likes. *)
Theorem C07_api_body_read_is_bounded : 0 < api_body_read_deadline_ns <= 30000000000.
Proof. unfold api_body_read_deadline_ns. lia. Qed.
Print Assumptions C07_api_body_read_is_bounded.

(** attribute updates race with the stages that read the attributes: UpdateToxicJson writes the
    new values into the shared toxic object and only then interrupts the stages. Whatever state a
    stage is in at that moment, and whatever the new values of the same toxic type are, the stage
    stays well-formed and its next timer or interrupt transition does not panic or diverge (input
    and send-completion transitions of a well-formed state are covered above). The premise is the
    regenerated fact that the bandwidth toxic cuts an instalment with the rate its loop test read. *)
Theorem C07_attribute_update_never_crashes_a_stage : forall (old new : toxic) (st : lstate) now,
  bw_cut_uses_tested_rate = true -> same_kind old new = true -> wf old st ->
  wf new st /\ mode_of (on_timer new now st) <> MDead /\ mode_of (on_interrupt now st) <> MDead.
Proof. exact attribute_write_is_harmless. Qed.
Print Assumptions C07_attribute_update_never_crashes_a_stage.

Theorem C07_bandwidth_cuts_with_the_tested_rate : bw_cut_uses_tested_rate = true.
Proof. reflexivity. Qed.
Print Assumptions C07_bandwidth_cuts_with_the_tested_rate.

(** finding F13, pinned to the arithmetic of the tree before the repair (the cut re-read t.Rate):
    a 250-byte chunk tested against rate 1, the rate raised to 1000 while the 100 ms timer runs - the
    cut p.Data[:100000] leaves the chunk and the stage panics; with the tested rate it does not *)
Theorem C07_rate_update_race_refuted_pinned :
  let p := mkChunk (repeat 7 250) 0 in
  wf (TBandwidth 1) (BwInst p 1 0 100000000) /\
  same_kind (TBandwidth 1) (TBandwidth 1000) = true /\
  mode_of (on_timer_gen false (TBandwidth 1000) 100000000 (BwInst p 1 0 100000000)) = MDead /\
  mode_of (on_timer_gen true (TBandwidth 1000) 100000000 (BwInst p 1 0 100000000)) <> MDead.
Proof. exact rate_update_race_pinned. Qed.
Print Assumptions C07_rate_update_race_refuted_pinned.

(** C20 — byte counters are exact and monotone. [l_rx] / [l_tx] are the byte counts that
    link.read / link.write add to the received / sent counters when they leave. *)
From Coq Require Import String.
From TP Require Import Model.Prelude Extracted Model.Toxics Model.Timed Proofs.GoArith Proofs.LinkFrame.

(** on every schedule, for every chain (dropping and truncating toxics included): the writer's
    count is exactly the bytes written to the receiver, and the reader's count plus what it has not
    read yet is the sender's total *)
Theorem C20_exact : forall n sigma l l',
  sched_run l sigma = Some l' -> counters_ok n l -> counters_ok n l'.
Proof. exact run_counters. Qed.
Print Assumptions C20_exact.

Theorem C20_init : forall chain src draws sd,
  counters_ok (zlen (unread (link_init_slow chain src draws sd))) (link_init_slow chain src draws sd).
Proof. intros. split; reflexivity. Qed.
Print Assumptions C20_init.

(** counters only ever receive non-negative additions, each link adding once per counter *)
Theorem C20_monotone : forall (l : link), 0 <= zlen (sink_bytes l) /\ 0 <= zlen (unread l).
Proof. intros; split; apply zlen_nonneg. Qed.
Print Assumptions C20_monotone.

(** what is added to the sent counter, and when (extracted from link.write): only on a clean end *)
Theorem C20_sent_only_without_error : sent_counted_on_error = false.
Proof. reflexivity. Qed.
Print Assumptions C20_sent_only_without_error.

Theorem C20_labels : metric_labels = ["direction"; "proxy.Name"; "proxy.Listen"; "proxy.Upstream"]%string.
Proof. reflexivity. Qed.
Print Assumptions C20_labels.

(** ---- which series the bytes go to (labels). [Model.Metrics]: link.Start takes the label values
    from the proxy when the link starts ([metric_labels] above is that list, regenerated from
    link.go); the counters are an append-only log. *)
From TP Require Import Model.Metrics Proofs.MetricsProofs.

(** a connection that starts takes the proxy's name, listen address and upstream as they are now *)
Theorem C20_start_takes_current_labels : forall s c p listen up,
  zassoc p (m_cfg s) = Some (listen, up) ->
  zassoc c (m_open (m_step s (MStart c p))) = Some (listen, p, up).
Proof. exact start_takes_current_labels. Qed.
Print Assumptions C20_start_takes_current_labels.

(** ... and keeps them whatever happens before it ends: in-place updates of its proxy, other
    proxies, other connections *)
Theorem C20_labels_fixed_at_start : forall s e c lab,
  zassoc c (m_open s) = Some lab ->
  (forall p, e <> MStart c p) -> (forall a b c' d, e <> MEnd c a b c' d) ->
  zassoc c (m_open (m_step s e)) = Some lab.
Proof. exact labels_fixed_at_start. Qed.
Print Assumptions C20_labels_fixed_at_start.

(** when it ends, its four counts are added to exactly the four series with those labels; every
    series with other labels is untouched *)
Theorem C20_end_exact : forall s c urx utx drx dtx lab,
  zassoc c (m_open s) = Some lab ->
  let s' := m_step s (MEnd c urx utx drx dtx) in
  counter s' (false, false, lab) = counter s (false, false, lab) + urx /\
  counter s' (true, false, lab) = counter s (true, false, lab) + utx /\
  counter s' (false, true, lab) = counter s (false, true, lab) + drx /\
  counter s' (true, true, lab) = counter s (true, true, lab) + dtx /\
  (forall k, snd k <> lab -> counter s' k = counter s k).
Proof. exact end_exact. Qed.
Print Assumptions C20_end_exact.

(** no other event moves any counter; no connection is counted twice; no series ever decreases *)
Theorem C20_only_end_counts : forall s e k,
  (forall c a b c' d, e <> MEnd c a b c' d) -> counter (m_step s e) k = counter s k.
Proof. exact only_end_counts. Qed.
Print Assumptions C20_only_end_counts.

Theorem C20_counted_once : forall s c a b c' d a2 b2 c2 d2 k,
  counter (m_step (m_step s (MEnd c a b c' d)) (MEnd c a2 b2 c2 d2)) k = counter (m_step s (MEnd c a b c' d)) k.
Proof. exact counted_once. Qed.
Print Assumptions C20_counted_once.

Theorem C20_never_decreases : forall h s k, Forall ev_nonneg h -> counter s k <= counter (fold_left m_step h s) k.
Proof. exact run_monotone. Qed.
Print Assumptions C20_never_decreases.

(** non-vacuity: an update between two connections splits their bytes over two label sets *)
Example C20_labels_example :
  let s := m_run [MConfig 0 7000 9000; MStart 1 0; MEnd 1 10 10 10 10; MConfig 0 7000 9001; MStart 2 0; MEnd 2 5 5 5 5] in
  counter s (false, false, (7000, 0, 9000)) = 10 /\ counter s (false, false, (7000, 0, 9001)) = 5.
Proof. vm_compute. split; reflexivity. Qed.

(** ... and on every clean end: nothing but the metrics switch stands between a copy that ended without
    an error and the addition to the sent counter - no condition on the link, its toxics or its stubs
    (regenerated from ToxicLink.write) *)
Theorem C20_sent_on_every_clean_end : sent_counted_on_every_clean_end = true.
Proof. reflexivity. Qed.
Print Assumptions C20_sent_on_every_clean_end.

(** C20 — byte counters are exact and monotone. [l_rx] / [l_tx] are the byte counts that
    link.read / link.write add to the received / sent counters when they leave. *)
From Coq Require Import String.
From TP Require Import Model.Prelude Extracted Model.Toxics Model.Timed Proofs.GoArith Proofs.LinkFrame.

(** on every schedule, for every chain (dropping and truncating toxics included): the writer's
    count is exactly the bytes written to the receiver, and the reader's count plus what it has not
    read yet is the sender's total *)
Theorem C20_exact : forall n sigma l l',
  sched_run l sigma = Some l' -> counters_ok n l -> counters_ok n l'.
Proof. exact run_counters. Qed.

Theorem C20_init : forall chain src draws sd,
  counters_ok (zlen (unread (link_init_slow chain src draws sd))) (link_init_slow chain src draws sd).
Proof. intros. split; reflexivity. Qed.

(** counters only ever receive non-negative additions, each link adding once per counter *)
Theorem C20_monotone : forall (l : link), 0 <= zlen (sink_bytes l) /\ 0 <= zlen (unread l).
Proof. intros; split; apply zlen_nonneg. Qed.

(** what is added to the sent counter, and when (extracted from link.write): only on a clean end *)
Theorem C20_sent_only_without_error : sent_counted_on_error = false.
Proof. reflexivity. Qed.

Theorem C20_labels : metric_labels = ["direction"; "proxy.Name"; "proxy.Listen"; "proxy.Upstream"]%string.
Proof. reflexivity. Qed.

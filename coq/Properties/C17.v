(** C17 — populate is idempotent and replaces on difference; reset restores a clean state.
    Over the API model [api_step] (Model/Api.v); [env] is the OS oracle: for each listen string the
    port it denotes, how the resolved address prints and how a bound listener prints. *)
From Coq Require Import String.
From TP Require Import Model.Prelude Extracted Model.Json Model.Api Proofs.C17Proofs.

(** every entry matches an existing proxy (as Proxy.Differs compares): 201, the existing proxies in
    request order, and nothing at all changes - not the proxies, not their toxic chains; the proxy
    objects are kept (never stopped), which is why live connections stay up *)
Theorem C17_idempotent : forall e s items,
  Forall (entry_matches e s) items ->
  populate_apply e s items [] = (mkResp status_created (PPopulate (flat_map (existing s) items)), s).
Proof. exact populate_idempotent. Qed.
Print Assumptions C17_idempotent.

Theorem C17_idempotent_repeated : forall e s items n,
  Forall (entry_matches e s) items -> repeat_populate e s items n = s.
Proof. exact populate_repeated. Qed.
Print Assumptions C17_idempotent_repeated.

(** an entry that differs in listen address or upstream replaces the proxy: the old one is stopped
    before the new one binds, and the new one has no toxics *)
Theorem C17_replace : forall e s i old a fresh',
  find_proxy s (pi_name i) = Some old -> lookup_env e (pi_listen i) = Some a ->
  (p_listen old <> a_resolved a \/ p_upstream old <> pi_upstream i) ->
  (match pi_enabled i with Some b => b | None => true end) = true ->
  start_proxy e (remove_proxy (replace_proxy s (stop_proxy old)) (pi_name i))
              (mkProxy (pi_name i) (pi_listen i) (pi_upstream i) false [] []) = Some fresh' ->
  populate_apply e s [i] [] =
  (mkResp status_created (PPopulate [fresh']), replace_proxy (replace_proxy s (stop_proxy old)) fresh') /\
  p_up fresh' = [] /\ p_down fresh' = [] /\ p_enabled fresh' = true.
Proof. exact populate_replaces. Qed.
Print Assumptions C17_replace.

(** after a successful reset every proxy is enabled and has no toxics in either direction *)
Theorem C17_reset : forall e s resp s',
  reset_all e s s = (resp, s') -> status resp = status_no_content ->
  forall n p, In n (map p_name s) -> find_proxy s' n = Some p -> clean p.
Proof. exact reset_cleans. Qed.
Print Assumptions C17_reset.

(** finding F10 (known): matching as the property means it - same socket address - is not what
    the code compares for the :port spelling (and for proxies that were never started): repeating
    the same body replaces the proxy and drops its toxics *)
Theorem C17_match_is_spelling_independent_refuted :
  let '(_, s1) := h_populate f10_env [] f10_body in
  let '(_, s2) := h_toxic_create s1 "a" (BJson (JObj [("type", JStr "latency")]))%string in
  let '(_, s3) := h_populate f10_env s2 f10_body in
  (exists p, find_proxy s2 "a" = Some p /\ length (p_down p) = 1%nat) /\
  (exists p, find_proxy s3 "a" = Some p /\ p_down p = []).
Proof. exact populate_port_spelling_refuted. Qed.
Print Assumptions C17_match_is_spelling_independent_refuted.

(** a populate entry that replaces a proxy stops the old incarnation - directly in the branch that found
    it, before the replacement is started or filed, whatever the replacement's address and enabled flag
    (regenerated from ProxyCollection.AddOrReplace); what stop() then guarantees is the lifecycle theorem *)
Theorem C17_replace_stops_the_old_proxy : replace_stops_the_old_proxy = true.
Proof. reflexivity. Qed.
Print Assumptions C17_replace_stops_the_old_proxy.

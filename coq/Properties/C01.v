(** C01 — relayed byte streams are exact (one direction of one connection; every chain of
    data-preserving toxics inside their guards; every payload, chunking and pacing; every schedule
    of reader, stages and writer, with time passing arbitrarily between steps).
    [sched_run] is the all-schedules system; [run_quiet] is the executable schedule that the
    correspondence harness compares with the real code to the nanosecond. *)
From TP Require Import Model.Prelude Extracted Model.Toxics Model.Timed
     Proofs.StageContract Proofs.LinkInv Proofs.LinkStatic Proofs.C01Proofs
     Model.Reconf Model.ReconfRun Model.MultiRun Proofs.MultiProofs.

(** delivered ++ in flight ++ not yet read = what the sender wrote, in every reachable state *)
Theorem C01_safety : forall chain src draws sd sigma l,
  chain_ok chain ->
  sched_run (link_init_slow chain src draws sd) sigma = Some l ->
  sink_bytes l ++ flow (l_stubs l) ++ pending l = src_bytes src.
Proof. exact c01_safety. Qed.
Print Assumptions C01_safety.

(** hence what the receiver has got is always a prefix of what was sent: nothing lost,
    duplicated, reordered or altered *)
Theorem C01_prefix : forall chain src draws sd sigma l,
  chain_ok chain ->
  sched_run (link_init_slow chain src draws sd) sigma = Some l ->
  is_prefix (sink_bytes l) (src_bytes src).
Proof. exact c01_prefix. Qed.
Print Assumptions C01_prefix.

(** the executable schedule is one of the schedules the theorem covers *)
Theorem C01_quiet_is_a_schedule : forall fuel horizon l l',
  run_quiet fuel horizon l = Some l' -> exists sigma, sched_run l sigma = Some l'.
Proof. exact run_quiet_sched. Qed.
Print Assumptions C01_quiet_is_a_schedule.

Theorem C01_safety_quiet : forall chain src draws sd fuel horizon l,
  chain_ok chain ->
  run_quiet fuel horizon (link_init_slow chain src draws sd) = Some l ->
  sink_bytes l ++ flow (l_stubs l) ++ pending l = src_bytes src.
Proof. exact c01_safety_quiet. Qed.
Print Assumptions C01_safety_quiet.

(** no stage panics or diverges on any schedule *)
Theorem C01_never_dead : forall chain src draws sd sigma l,
  chain_ok chain ->
  sched_run (link_init_slow chain src draws sd) sigma = Some l ->
  Forall (fun s => mode_of (s_st s) <> MDead) (l_stubs l).
Proof. exact c01_never_dead. Qed.
Print Assumptions C01_never_dead.

(** a static link never gives up on a hand-off (the 5 s WriteOutput timeout is unreachable) *)
Theorem C01_no_give_up : forall l i, static_link l -> stub_send_timeout l i = None.
Proof. exact static_no_send_timeout. Qed.
Print Assumptions C01_no_give_up.

(** ... tied to the code by a regenerated fact: in toxics/*.go every hand-off with a time limit
    (WriteOutput) sits in a select arm that received from stub.Interrupt, and plain hand-offs are
    never select arms - [static_st] (no [SendT], no [Send _ KExit]) is what a stage can reach
    without an interrupt *)
Theorem C01_give_up_only_when_interrupted : give_up_only_when_interrupted = true /\ toxic_sends_are_plain = true.
Proof. split; reflexivity. Qed.
Print Assumptions C01_give_up_only_when_interrupted.

(** the per-stage facts everything above rests on (any toxic proved to satisfy them inherits
    the link theorems) *)
Theorem C01_stage_input : forall tx ps now draws (c : option chunk) acc tmr s' ds,
  attrs_ok tx -> wf tx (Idle acc tmr) -> pstate_ok tx ps ->
  on_input tx ps now draws c (Idle acc tmr) = (s', ds) ->
  wf tx s' /\ match c with Some ch => keeps tx (cdata ch) (held s') | None => held s' = [] end.
Proof. exact on_input_contract. Qed.
Print Assumptions C01_stage_input.

Theorem C01_stage_sent : forall tx ps now (c : chunk) k s' ps',
  attrs_ok tx -> wf tx (Send c k) -> pstate_ok tx ps ->
  on_sent tx ps now (Send c k) = (s', ps') ->
  wf tx s' /\ pstate_ok tx ps' /\ held (Send c k) = cdata c ++ held s'.
Proof. exact on_sent_contract. Qed.
Print Assumptions C01_stage_sent.

Theorem C01_stage_interrupt : forall tx now s,
  wf tx s -> wf tx (on_interrupt now s) /\ held (on_interrupt now s) = held s.
Proof. exact on_interrupt_contract. Qed.
Print Assumptions C01_stage_interrupt.

Theorem C01_stage_quiescent : forall s,
  match mode_of s with MSelect true _ _ | MClose | MExit => held s = [] | _ => True end.
Proof. exact quiescent_holds_nothing. Qed.
Print Assumptions C01_stage_quiescent.

(** ---- liveness half (no deadlock). On ANY schedule of a link of data-preserving toxics: a state
    in which nothing can move (no stage, not the reader) and nothing is pending (no timer, no pause
    of the receiver, no source event) is a completed transfer - nothing is held anywhere, the
    receiver has exactly what the sender wrote, and if the sender closed then every stage has exited
    and the receiver has been closed. Proved through the closure-order invariant of
    Proofs/Progress.v (stub i+1's input is closed exactly when stub i has closed; a stage closes only
    after its input was closed and drained). *)
From TP Require Import Proofs.Progress Proofs.C01Live.

Theorem C01_no_deadlock : forall chain src draws sd sigma l,
  chain_ok chain ->
  sched_run (link_init_slow chain src draws sd) sigma = Some l ->
  step_now l = None -> next_time l = None ->
  flow (l_stubs l) = [] /\
  match l_rd l with
  | RSend _ => False
  | RIdle => l_rest l = [] /\ l_src l = [] /\ sink_bytes l = src_bytes src
  | RClosed => sink_bytes l = src_bytes src /\ Forall (fun s => s_st s = Exited) (l_stubs l) /\ l_sink_closed l <> None
  end.
Proof. exact c01_no_deadlock. Qed.
Print Assumptions C01_no_deadlock.

(** the executable run - the one compared with the real code to the nanosecond - stops only when
    the transfer is complete (or at the horizon / out of fuel, which the statement excludes) *)
Theorem C01_complete : forall chain src draws sd fuel horizon l,
  chain_ok chain ->
  run_quiet fuel horizon (link_init_slow chain src draws sd) = Some l ->
  next_time l = None ->
  sink_bytes l = src_bytes src /\ flow (l_stubs l) = [] /\
  (l_rd l = RClosed -> Forall (fun s => s_st s = Exited) (l_stubs l) /\ l_sink_closed l <> None).
Proof. exact c01_complete. Qed.
Print Assumptions C01_complete.

(** the invariant itself, one step of any schedule *)
Theorem C01_closure_order_step : forall l a l',
  link_ok l -> static_link l -> closure_inv l -> sched_step l a = Some l' -> closure_inv l'.
Proof. exact closure_step. Qed.
Print Assumptions C01_closure_order_step.

(** "independently of all other connections": in the executable runs with several connections of one
    proxy under a common history of operations (Model/MultiRun.v, compared with the real code per
    connection to the nanosecond), what happens on connection k is an interleaving of the
    all-schedules system of that connection alone, whatever the other connections do - they share
    nothing but the schedule of the operations. Every theorem about [mixed_run] / [sched_run]
    therefore holds for each connection of such a run. *)
Theorem C01_independent_of_other_connections : forall fuel horizon m m' k r,
  mrun_quiet fuel horizon m = Some m' -> nth_error (m_links m) k = Some r ->
  exists r' sigma, nth_error (m_links m') k = Some r' /\ mixed_run (r_l r) sigma = Some (r_l r').
Proof. exact mrun_link_is_an_interleaving. Qed.
Print Assumptions C01_independent_of_other_connections.

(** the reader goroutine closes the chain's input and nothing else, and waits for nothing (regenerated):
    end-of-stream reaches the receiver only behind everything sent before the close *)
Theorem C01_reader_closes_only_its_input : reader_closes_only_its_input = true.
Proof. reflexivity. Qed.
Print Assumptions C01_reader_closes_only_its_input.

(** C19 — the Go client and the CLI do what the API would do (placeholder: theorems below). *)
From Coq Require Import String.
From TP Require Import Model.Prelude Extracted Model.Json Model.Api.

(** a toxic update whose body carries no "toxicity" key keeps the server-side toxicity, and
    attributes that are not mentioned keep their values (what the client relies on when the caller
    passes toxicity -1 / omits attributes) *)
Theorem C19_unspecified_kept : forall (a : attrs) tox (fields : list (string * json)),
  (forall kv, In kv fields -> key_is (fst kv) "toxicity" = false) ->
  snd (fst (dec_update true a tox (JObj fields))) = tox.
Proof.
  intros a tox fields H. unfold dec_update.
  assert (G : forall fs acc, (forall kv, In kv fs -> key_is (fst kv) "toxicity" = false) ->
               snd (fst (fold_left (dec_update_field true) fs acc)) = snd (fst acc)).
  { induction fs as [|[k v] fs IH]; intros acc Hf; [reflexivity|]. simpl. rewrite IH by (intros; apply Hf; now right).
    destruct acc as [[a0 t0] e0]. simpl. specialize (Hf (k, v) (or_introl eq_refl)). simpl in Hf.
    destruct (key_is k "attributes"); [destruct (dec_attrs a0 v); reflexivity|]. rewrite Hf. reflexivity. }
  rewrite G by exact H. reflexivity.
Qed.
Print Assumptions C19_unspecified_kept.

(** the CLI's `toxic update` without --toxicity passes the value the client library treats as
    "keep the current value", so the request carries no toxicity (and C19_unspecified_kept applies);
    `toxic add` without --toxicity passes the API's own default *)
Theorem C19_cli_update_keeps_toxicity : cli_update_default_toxicity_1024 = client_update_keep_sentinel_1024.
Proof. reflexivity. Qed.
Print Assumptions C19_cli_update_keeps_toxicity.

Theorem C19_cli_add_default_is_api_default :
  cli_add_default_toxicity_1024 = toxic_toxicity_default_1024 /\ client_add_default_toxicity_1024 = toxic_toxicity_default_1024.
Proof. split; reflexivity. Qed.
Print Assumptions C19_cli_add_default_is_api_default.

(** proxies handed back by Client.Populate denote existing server-side proxies: operations on
    them are updates, not creates *)
Theorem C19_populate_handles_created : client_populate_marks_created = true.
Proof. reflexivity. Qed.
Print Assumptions C19_populate_handles_created.

(** a server-side error is surfaced: exactly the statuses in [200, 300) count as success, and
    every rejection of the API model is outside that range *)
Theorem C19_errors_surface : client_ok_from = 200 /\ client_ok_below = 300 /\
  (forall r : response, 400 <= status r -> ~ (client_ok_from <= status r < client_ok_below)).
Proof. repeat split; try reflexivity. intros r H. unfold client_ok_from, client_ok_below. lia. Qed.
Print Assumptions C19_errors_surface.

(** attributes the caller does not mention keep their server-side values *)
Theorem C19_unmentioned_attrs_kept : forall (a : attrs) f z,
  has_field a f = None -> fst (dec_attr_field (a, false) (f, JInt z)) = a.
Proof. intros a f z H. unfold dec_attr_field. rewrite H. reflexivity. Qed.
Print Assumptions C19_unmentioned_attrs_kept.

(** C15 — finished connections leave nothing behind (partial: the model exhibits which processes
    of a link can still be blocked in a terminal state; sockets, file descriptors and the
    bookkeeping maps are observed by the harness). *)
From TP Require Import Model.Prelude Extracted Model.Toxics Model.Timed.

(** a state in which nothing can ever happen again *)
Definition terminal (l : link) : Prop := step_now l = None /\ next_time l = None.

(** every process of the link has finished: the reader has closed its channel, every stage has
    returned and closed its stub, the writer has closed the destination *)
Definition all_done (l : link) : Prop :=
  l_rd l = RClosed /\ Forall (fun s => s_st s = Exited /\ s_closed s = true) (l_stubs l) /\ l_sink_closed l <> None.

(** finding F7 (known) on the faithful model: limit_data 1, two writes, then the sender closes. The
    stage closes its stub after the first byte; the noop before it has already taken the second
    chunk and is blocked for ever handing it to a stage that no longer receives; the reader
    finishes, but that stage never does. *)
Theorem C15_final_is_clean_refuted :
  exists l, run_quiet 100 1000000000 (link_init [(TLimitData 1, true)] [SWrite 0 [1;2]; SWrite 0 [3]; SClose 5] []) = Some l /\
            terminal l /\ ~ all_done l /\
            exists s, nth_error (l_stubs l) 0 = Some s /\ (exists c k, s_st s = Send c k).
Proof.
  eexists. split; [vm_compute; reflexivity|]. split; [split; vm_compute; reflexivity|].
  split.
  - intros (_ & H & _). inversion H as [|? ? [H1 _] _]. discriminate.
  - eexists. split; [reflexivity|]. eexists. eexists. reflexivity.
Qed.
Print Assumptions C15_final_is_clean_refuted.

(** the clean case the code handles: the same chain when the stream fits the limit ends with every
    process done *)
Theorem C15_clean_when_nothing_pending :
  exists l, run_quiet 100 1000000000 (link_init [(TLatency 5 0, true); (TSlowClose 7, true)] [SWrite 0 [1;2]; SWrite 3 [3]; SClose 5] []) = Some l /\
            terminal l /\ all_done l /\ sink_bytes l = [1;2;3].
Proof.
  eexists. split; [vm_compute; reflexivity|]. split; [split; vm_compute; reflexivity|].
  split; [|vm_compute; reflexivity].
  split; [vm_compute; reflexivity|]. split; [|vm_compute; discriminate].
  vm_compute. repeat constructor.
Qed.
Print Assumptions C15_clean_when_nothing_pending.

(** the benign cells of the matrix, as a theorem over all schedules: a link of data-preserving
    toxics whose sender has closed and on which nothing can happen any more has no process left -
    the reader has finished, every stage has returned and closed its stub, the writer has closed
    the receiver - and everything was delivered (corollary of C01_no_deadlock) *)
From TP Require Import Proofs.LinkInv Proofs.C01Proofs Proofs.C01Live.
Theorem C15_preserving_chains_end_clean : forall chain src draws sd sigma l,
  chain_ok chain ->
  sched_run (link_init_slow chain src draws sd) sigma = Some l ->
  terminal l -> l_rd l = RClosed -> all_done l /\ sink_bytes l = src_bytes src.
Proof.
  intros chain src draws sd sigma l Hc Hrun [Hnow Hnext] Hrd.
  destruct (preserving_chains_end_clean chain src draws sd sigma l Hc Hrun Hnow Hnext Hrd) as (H1 & H2 & H3).
  split; [|exact H3]. split; [exact Hrd|]. split; assumption.
Qed.
Print Assumptions C15_preserving_chains_end_clean.

(** the bookkeeping, on every schedule of the lifecycle model of a proxy incarnation (clients
    connecting, upstream dials succeeding or failing, links ending in any order - whoever ended the
    connection -, stop() at any point or never): whenever every link that was started has ended
    and the accept loop is not in the middle of setting a connection up, the connection table is
    empty and no socket is open. Rests on four facts regenerated from proxy.go / link.go. *)
From TP Require Import Model.Proxy Proofs.ProxyProofs.
Theorem C15_code_facts :
  free_blocker_waits_for_accept_loop = true /\ conn_key_is_dest = true /\
  registers_before_links = true /\ writer_deregisters_its_name = true.
Proof. repeat split; reflexivity. Qed.
Print Assumptions C15_code_facts.

Theorem C15_nothing_left_when_links_ended : forall l s,
  prun px_init l = Some s -> x_links s = [] -> (x_acc s = APending \/ x_acc s = ADone) ->
  x_table s = [] /\ x_open s = [].
Proof.
  exact (nothing_left_when_links_ended (proj1 C15_code_facts) (proj2 (proj2 (proj2 C15_code_facts)))).
Qed.
Print Assumptions C15_nothing_left_when_links_ended.

(** the premise is met: two connections, one whose dial fails, links ending in mixed order, a stop *)
Example C15_books_nonvacuous :
  exists s, prun px_init [PAccept; PDialOk; PRegister; PLink1; PLink2; PAccept; PDialFail; PAccept; PDialOk; PRegister;
                          PLinkEnd 1; PLink1; PLink2; PStopKill; PLinkEnd 4; PFreeBlocker1; PLinkEnd 0; PAcceptFail;
                          PFreeBlocker2; PStopWaited; PStopCloseAll; PLinkEnd 5]%nat = Some s /\
            x_links s = [] /\ x_acc s = ADone /\ x_table s = [] /\ x_open s = [].
Proof. eexists. split; [vm_compute; reflexivity|]. repeat split. Qed.

(** a populate entry that replaces a proxy stops the old incarnation - directly in the branch that found
    it, before the replacement is started or filed, whatever the replacement's address and enabled flag
    (regenerated from ProxyCollection.AddOrReplace); what stop() then guarantees is the lifecycle theorem *)
Theorem C15_replace_stops_the_old_proxy : replace_stops_the_old_proxy = true.
Proof. reflexivity. Qed.
Print Assumptions C15_replace_stops_the_old_proxy.

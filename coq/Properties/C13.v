(** C13 — slow_close delays only the close; reset_peer ends with a TCP reset (the reset itself is
    kernel behaviour: the model states when the stub closes and which socket option was set). *)
From TP Require Import Model.Prelude Extracted Model.Toxics Model.Timed Proofs.StageContract
     Proofs.TimingProofs.

Theorem C13_slow_close_data : forall d ps now draws (c : chunk),
  on_input (TSlowClose d) ps now draws (Some c) (Idle 0 None) = (Send c (KIdle 0), draws).
Proof. exact slow_close_data. Qed.
Print Assumptions C13_slow_close_data.

Theorem C13_slow_close_delay : forall d ps now draws,
  on_input (TSlowClose d) ps now draws None (Idle 0 None) = (ScWait (now + slow_close_ns d), draws) /\
  (forall now', on_timer (TSlowClose d) now' (ScWait (now + slow_close_ns d)) = Closing) /\
  (ms_ok d -> slow_close_ns d = d * 1000000).
Proof. exact slow_close_wait. Qed.
Print Assumptions C13_slow_close_delay.

Theorem C13_slow_close_interrupt : forall d now dl,
  on_interrupt now (ScWait dl) = Exited /\ init_state (TSlowClose d) None now = Idle 0 None.
Proof. exact slow_close_interrupt. Qed.
Print Assumptions C13_slow_close_interrupt.

Theorem C13_reset_peer : forall t ps now draws (c : option chunk),
  on_input (TResetPeer t) ps now draws c (Idle 0 None) = (RpWait (now + reset_peer_ns t), draws) /\
  held (RpWait (now + reset_peer_ns t)) = [] /\
  mode_of (RpWait (now + reset_peer_ns t)) = MSelect false false (Some (now + reset_peer_ns t)) /\
  (forall now', on_timer (TResetPeer t) now' (RpWait (now + reset_peer_ns t)) = Closing) /\
  (forall now', on_interrupt now' (RpWait (now + reset_peer_ns t)) = RpWait (now + reset_peer_ns t)) /\
  (ms_ok t -> reset_peer_ns t = t * 1000000).
Proof. exact reset_peer_first. Qed.
Print Assumptions C13_reset_peer.

Theorem C13_not_early : forall l i l',
  stub_timer l i = Some l' ->
  exists s dl, nth_error (l_stubs l) i = Some s /\ stub_deadline s = Some dl /\ dl <= l_now l.
Proof. exact timer_not_early. Qed.
Print Assumptions C13_not_early.

(** link.go's Start sets SO_LINGER 0 on both sockets, for a reset_peer toxic present at connect
    time, before the writer of that link (the only closer of its destination) is started *)
Theorem C13_linger_before_writer : start_sets_linger_before_writer = true.
Proof. reflexivity. Qed.
Print Assumptions C13_linger_before_writer.

(** an update of reset_peer's timeout (or slow_close's delay) reaches the connections that are open: every
    accepted update restarts the toxic's stage on every connection, whatever it changed (regenerated:
    the attribute write, the toxicity write and chainUpdateToxic are statements of one block) - a
    reset_peer stage reads its timeout when it starts *)
Theorem C13_update_reaches_open_connections : update_always_restarts = true /\ update_writes_before_interrupt = true.
Proof. split; reflexivity. Qed.
Print Assumptions C13_update_reaches_open_connections.

(** C11 — limit_data delivers exactly the first N bytes of a connection. *)
From TP Require Import Model.Prelude Extracted Model.Toxics Model.Timed Proofs.StageContract
     Proofs.StageRun Proofs.StageFeed Proofs.C11Proofs Proofs.LinkFrame.

(** every chunking [cs] of every payload, every pacing [ts], every limit N and starting counter k
    for which N - counter does not wrap int64: the stage forwards what [limit_spec] says ... *)
Theorem C11_feed : forall nb fuel, (1 < fuel)%nat -> forall (cs : list chunk) (ts : list Z) k,
  length ts = length cs -> 0 <= k ->
  (forall k', k <= k' -> k' <= k + zlen (concat (map cdata cs)) -> no_wrap nb k') ->
  let r := feed (TLimitData nb) fuel (Some k) (Idle (nb - k) None) (arrivals ts cs) in
  let '(e, k', cl) := limit_spec nb k cs in
  emitted r = e /\ snd r = Some k' /\ final_st r = (if cl then Closing else Idle (nb - k') None).
Proof. exact limit_feed. Qed.
Print Assumptions C11_feed.

(** ... and that is exactly the first max(N - k, 0) bytes of the stream, however it is chunked;
    the counter ends at k + bytes forwarded; the stub closes in the step that forwards the N-th
    byte (for N - k <= 0: on the first chunk, forwarding nothing) *)
Theorem C11_exact_prefix : forall nb cs k,
  let '(e, k', cl) := limit_spec nb k cs in
  e = firstn (Z.to_nat (Z.max (nb - k) 0)) (concat (map cdata cs)) /\
  k' = k + zlen e /\
  (cl = true <-> (cs <> [] /\ nb - k <= zlen (concat (map cdata cs)))).
Proof. exact limit_spec_prefix. Qed.
Print Assumptions C11_exact_prefix.

(** a restart of the stage (reconfiguration of a neighbour, or an update of its own limit)
    re-reads the budget from the per-connection counter kept in the stub *)
Theorem C11_restart : forall nb k now,
  init_state (TLimitData nb) (Some k) now = Idle (limit_remaining nb k) None.
Proof. exact limit_restart. Qed.
Print Assumptions C11_restart.

Theorem C11_budget_no_wrap : forall nb k, no_wrap nb k -> limit_remaining nb k = nb - k.
Proof. exact limit_remaining_exact. Qed.
Print Assumptions C11_budget_no_wrap.

(** the counter is per stub: no action of a link touches the toxic identities of its stubs
    (and links share no state in the model) *)
Theorem C11_per_link : forall sigma l l', sched_run l sigma = Some l' -> idents l' = idents l.
Proof. exact run_idents. Qed.
Print Assumptions C11_per_link.

(** finding F11 (known): at the wrap boundary N - counter turns positive and the limit is lost *)
Theorem C11_wrap_refuted_pinned : limit_remaining min64 5 = max64 - 4.
Proof. exact limit_wrap_witness. Qed.
Print Assumptions C11_wrap_refuted_pinned.

(** regenerated from link.go on every run: NewState() is reached only for stubs that are new (all of
    them in Start, the appended one in AddToxic); the restarts of existing stubs in AddToxic,
    UpdateToxic and RemoveToxic keep the stub's state object - which is what [CRestart] of
    Model/Reconf.v does with [s_ps] - so the bytes already counted survive every reconfiguration *)
Theorem C11_state_survives_restarts : state_created_only_for_new_stubs = true.
Proof. reflexivity. Qed.
Print Assumptions C11_state_survives_restarts.

(** once the stage has closed its stub the writer's copy ends and the receiver's socket is closed by
    the very next statement - before the writer deregisters the link and the connection, which
    needs locks that other requests may hold for seconds (regenerated from ToxicLink.write: the
    close is a plain statement between the copy and RemoveLink / RemoveConnection, none deferred) *)
Theorem C11_close_is_not_held_back : writer_closes_before_deregistering = true.
Proof. reflexivity. Qed.
Print Assumptions C11_close_is_not_held_back.

// Command h holds the correspondence harnesses that run with the default toolchain
// (httptest API runs, real TCP, direct calls of pure functions through the verif shims).
//   h -mode <m> -in <cases.json> -out <results.json>
package main

import (
	"encoding/json"
	"flag"
	"fmt"
	"os"
)

func main() {
	mode := flag.String("mode", "", "harness mode")
	in := flag.String("in", "", "input file")
	out := flag.String("out", "", "output file")
	flag.Parse()
	raw, err := os.ReadFile(*in)
	if err != nil {
		fmt.Fprintln(os.Stderr, err)
		os.Exit(2)
	}
	var res interface{}
	switch *mode {
	case "api":
		res = runAPI(raw)
	case "tcp":
		res = runTCP(raw)
	case "client":
		res = runClient(raw)
	case "conc":
		res = runConc(raw)
	default:
		_ = raw
		fmt.Fprintf(os.Stderr, "unknown mode %q\n", *mode)
		os.Exit(2)
	}
	b, _ := json.Marshal(res)
	if err := os.WriteFile(*out, b, 0o644); err != nil {
		fmt.Fprintln(os.Stderr, err)
		os.Exit(2)
	}
}

package main

import (
	"sync"
	"encoding/json"
	"io"
	"net/http"
	"net/http/httptest"
	"os/exec"
	"strings"

	"github.com/rs/zerolog"

	toxiproxy "github.com/Shopify/toxiproxy/v2"
	tclient "github.com/Shopify/toxiproxy/v2/client"
)

// client mode: operations of the Go client library (and of the toxiproxy-cli binary built from
// the tree) against an in-process API server on a real loopback port; after every operation the
// server's state is read with a raw GET /proxies.

type clientOp struct {
	Op       string                 `json:"op"`
	Name     string                 `json:"name,omitempty"`
	Listen   string                 `json:"listen,omitempty"`
	Upstream string                 `json:"upstream,omitempty"`
	Enabled  *bool                  `json:"enabled,omitempty"`
	Via      string                 `json:"via,omitempty"` // which handle: "get" (client.Proxy), "map" (client.Proxies), "populate" (returned by Populate), "create"
	Toxic    string                 `json:"toxic,omitempty"`
	Type     string                 `json:"type,omitempty"`
	Stream   string                 `json:"stream,omitempty"`
	Toxicity float32                `json:"toxicity,omitempty"`
	Attrs    map[string]interface{} `json:"attrs,omitempty"`
	Entries  []tclient.Proxy        `json:"entries,omitempty"`
	Args     []string               `json:"args,omitempty"` // cli
}

type clientRes struct {
	Err     string          `json:"err"`
	Value   json.RawMessage `json:"value,omitempty"` // what the operation returned, as JSON
	Proxies string          `json:"proxies"`         // raw GET /proxies afterwards
	Exit    int             `json:"exit,omitempty"`
	Out     string          `json:"out,omitempty"`
	Served  []int           `json:"served,omitempty"` // status codes the server answered while the operation ran, in order
}

// statusRecorder notes the status code of every response of the in-process server
type statusRecorder struct {
	http.ResponseWriter
	code int
}

func (w *statusRecorder) WriteHeader(c int) {
	w.code = c
	w.ResponseWriter.WriteHeader(c)
}

func rawGet(url string) string {
	resp, err := http.Get(url)
	if err != nil {
		return "ERR " + err.Error()
	}
	defer resp.Body.Close()
	b, _ := io.ReadAll(resp.Body)
	return string(b)
}

func runClientCase(ops []clientOp, cliBin string) []clientRes {
	server := toxiproxy.NewServer(toxiproxy.NewMetricsContainer(nil), zerolog.Nop())
	var servedMu sync.Mutex
	var served []int
	routes := server.Routes()
	ts := httptest.NewServer(http.HandlerFunc(func(w http.ResponseWriter, rq *http.Request) {
		rec := &statusRecorder{ResponseWriter: w, code: 200}
		routes.ServeHTTP(rec, rq)
		servedMu.Lock()
		served = append(served, rec.code)
		servedMu.Unlock()
	}))
	defer func() {
		ts.Close()
		server.Collection.Clear()
	}()
	cl := tclient.NewClient(ts.URL)
	handles := map[string]*tclient.Proxy{} // handles kept from create / populate, by name
	var out []clientRes
	handle := func(op clientOp) (*tclient.Proxy, error) {
		switch op.Via {
		case "map":
			m, err := cl.Proxies()
			if err != nil {
				return nil, err
			}
			if p, ok := m[op.Name]; ok {
				return p, nil
			}
			return cl.Proxy(op.Name)
		case "kept":
			if p, ok := handles[op.Name]; ok {
				return p, nil
			}
			return cl.Proxy(op.Name)
		default:
			return cl.Proxy(op.Name)
		}
	}
	for _, op := range ops {
		var r clientRes
		var err error
		var val interface{}
		// a kept handle carries the listen / upstream it was created with and re-sends them: once the proxy was changed or removed
		// through another route, using the old handle would be the caller's stale data, not the operation's effect - drop it
		// (the operation then fetches the proxy first)
		switch {
		case (op.Op == "retarget" || op.Op == "delete") && op.Via != "kept":
			delete(handles, op.Name)
		case op.Op == "cli" && len(op.Args) > 0 && (op.Args[0] == "create" || op.Args[0] == "delete"):
			delete(handles, op.Args[len(op.Args)-1])
		case op.Op == "reset":
			// reset enables every proxy on the server; handles keep their own copy of the flag
			for k := range handles {
				delete(handles, k)
			}
		}
		switch op.Op {
		case "create":
			var p *tclient.Proxy
			p, err = cl.CreateProxy(op.Name, op.Listen, op.Upstream)
			if err == nil {
				handles[op.Name] = p
				val = p
			}
		case "save_new":
			p := cl.NewProxy()
			p.Name, p.Listen, p.Upstream = op.Name, op.Listen, op.Upstream
			if op.Enabled != nil {
				p.Enabled = *op.Enabled
			}
			err = p.Save()
			if err == nil {
				handles[op.Name] = p
				val = p
			}
		case "get":
			var p *tclient.Proxy
			p, err = cl.Proxy(op.Name)
			val = p
		case "list":
			var m map[string]*tclient.Proxy
			m, err = cl.Proxies()
			val = m
		case "enable", "disable", "retarget":
			var p *tclient.Proxy
			p, err = handle(op)
			if err == nil {
				switch op.Op {
				case "enable":
					err = p.Enable()
				case "disable":
					err = p.Disable()
				default:
					p.Upstream = op.Upstream
					err = p.Save()
				}
				val = p
			}
		case "delete":
			var p *tclient.Proxy
			p, err = handle(op)
			if err == nil {
				err = p.Delete()
			}
		case "toxics":
			var p *tclient.Proxy
			p, err = handle(op)
			if err == nil {
				var t tclient.Toxics
				t, err = p.Toxics()
				val = t
			}
		case "add_toxic":
			var t *tclient.Toxic
			if op.Via == "client" {
				t, err = cl.AddToxic(&tclient.ToxicOptions{ProxyName: op.Name, ToxicName: op.Toxic, ToxicType: op.Type, Stream: op.Stream,
					Toxicity: op.Toxicity, Attributes: op.Attrs})
			} else {
				var p *tclient.Proxy
				p, err = handle(op)
				if err == nil {
					t, err = p.AddToxic(op.Toxic, op.Type, op.Stream, op.Toxicity, op.Attrs)
				}
			}
			val = t
		case "update_toxic":
			var t *tclient.Toxic
			if op.Via == "client" {
				t, err = cl.UpdateToxic(&tclient.ToxicOptions{ProxyName: op.Name, ToxicName: op.Toxic, Toxicity: op.Toxicity, Attributes: op.Attrs})
			} else {
				var p *tclient.Proxy
				p, err = handle(op)
				if err == nil {
					t, err = p.UpdateToxic(op.Toxic, op.Toxicity, op.Attrs)
				}
			}
			val = t
		case "remove_toxic":
			if op.Via == "client" {
				err = cl.RemoveToxic(&tclient.ToxicOptions{ProxyName: op.Name, ToxicName: op.Toxic})
			} else {
				var p *tclient.Proxy
				p, err = handle(op)
				if err == nil {
					err = p.RemoveToxic(op.Toxic)
				}
			}
		case "populate":
			var ps []*tclient.Proxy
			ps, err = cl.Populate(op.Entries)
			for _, p := range ps {
				handles[p.Name] = p
			}
			val = ps
		case "reset":
			err = cl.ResetState()
		case "cli":
			args := append([]string{"-host", ts.URL}, op.Args...)
			cmd := exec.Command(cliBin, args...)
			b, e := cmd.CombinedOutput()
			r.Out = string(b)
			if len(r.Out) > 600 {
				r.Out = r.Out[:600]
			}
			if e != nil {
				r.Exit = 1
				if ee, ok := e.(*exec.ExitError); ok {
					r.Exit = ee.ExitCode()
				}
				err = e
			}
		}
		if err != nil {
			r.Err = err.Error()
			if r.Err == "" {
				r.Err = "error"
			}
		}
		if val != nil && err == nil {
			if b, e := json.Marshal(val); e == nil {
				r.Value = b
			}
		}
		servedMu.Lock()
		r.Served = append([]int(nil), served...)
		servedMu.Unlock()
		r.Proxies = rawGet(ts.URL + "/proxies")
		servedMu.Lock()
		served = nil
		servedMu.Unlock()
		out = append(out, r)
	}
	return out
}

func runClient(raw []byte) interface{} {
	var in struct {
		Cases  [][]clientOp `json:"cases"`
		CliBin string       `json:"cli_bin"`
	}
	// attribute values keep their exact decimal text (json.Number): integers above 2^53 must reach the client library unrounded
	dec := json.NewDecoder(strings.NewReader(string(raw)))
	dec.UseNumber()
	if err := dec.Decode(&in); err != nil {
		panic(err)
	}
	out := make([][]clientRes, len(in.Cases))
	for i, c := range in.Cases {
		out[i] = runClientCase(c, in.CliBin)
	}
	_ = strings.TrimSpace
	return out
}

package main

import (
	"encoding/json"
	"net"
	"net/http/httptest"
	"strings"
	"sync"
	"time"

	"github.com/rs/zerolog"

	toxiproxy "github.com/Shopify/toxiproxy/v2"
)

// conc mode: a sequential setup, then k requests released together on the in-process server
// (handler.ServeHTTP from k goroutines), optionally with connection churn on the proxies; every
// request is recorded with its invocation/response instants; then a final GET /proxies and dial
// probes. A watchdog reports requests that never return.

type concCase struct {
	Setup  []apiReq `json:"setup"`
	Batch  []apiReq `json:"batch"`
	Churn  []string `json:"churn"`  // addresses dialled in a loop while the batch runs
	Probes []string `json:"probes"` // addresses dialled afterwards
	Rounds int      `json:"rounds"` // repeat (setup; batch) this many times on fresh servers
	// Interleave: replay the two critical sections of ProxyUpdate (lookup; Proxy.Update) with a complete
	// ProxyDelete in between, through the public methods the handlers call - the schedule of finding F9
	Interleave string `json:"interleave"`
	// Upstreams: addresses on which the harness runs servers that accept, echo one read and close (so that connections
	// through a proxy really get linked: the accept loop dials, registers and starts the links)
	Upstreams []string `json:"upstreams"`
}

type concReq struct {
	Status int    `json:"status"`
	Body   string `json:"body"`
	T0     int64  `json:"t0"`
	T1     int64  `json:"t1"`
}

type concRound struct {
	Setup   []int          `json:"setup"`
	Batch   []concReq      `json:"batch"`
	Final   string         `json:"final"`
	Probes  map[string]bool `json:"probes"`
	Stuck   int            `json:"stuck"` // requests that had not returned after the watchdog period
}

func runConcCase(c concCase) []concRound {
	rounds := c.Rounds
	if rounds < 1 {
		rounds = 1
	}
	var out []concRound
	for _, a := range c.Upstreams {
		ln, err := net.Listen("tcp", a)
		if err != nil {
			continue
		}
		defer ln.Close()
		go func() {
			for {
				conn, err := ln.Accept()
				if err != nil {
					return
				}
				go func() {
					buf := make([]byte, 64)
					conn.SetDeadline(time.Now().Add(200 * time.Millisecond))
					if n, err := conn.Read(buf); err == nil {
						conn.Write(buf[:n])
					}
					conn.Close()
				}()
			}
		}()
	}
	for r := 0; r < rounds; r++ {
		server := toxiproxy.NewServer(toxiproxy.NewMetricsContainer(nil), zerolog.Nop())
		h := server.Routes()
		var rd concRound
		for _, q := range c.Setup {
			rd.Setup = append(rd.Setup, doReq(h, q).Status)
		}
		if c.Interleave != "" {
			p, err := server.Collection.Get(c.Interleave)
			if err == nil {
				input := toxiproxy.Proxy{Listen: p.Listen, Upstream: p.Upstream, Enabled: true} // the handler's defaults + {"enabled":true}
				server.Collection.Remove(c.Interleave)
				p.Update(&input)
			}
		}
		stopChurn := make(chan struct{})
		var churnWG sync.WaitGroup
		for _, addr := range c.Churn {
			churnWG.Add(1)
			go func(addr string) {
				defer churnWG.Done()
				for {
					select {
					case <-stopChurn:
						return
					default:
					}
					if conn, err := net.DialTimeout("tcp", addr, 50*time.Millisecond); err == nil {
						conn.Write([]byte("x"))
						conn.Close()
					}
					time.Sleep(200 * time.Microsecond)
				}
			}(addr)
		}
		rd.Batch = make([]concReq, len(c.Batch))
		start := make(chan struct{})
		var wg sync.WaitGroup
		t00 := time.Now()
		done := make([]bool, len(c.Batch))
		var mu sync.Mutex
		for i := range c.Batch {
			wg.Add(1)
			go func(i int) {
				defer wg.Done()
				<-start
				t0 := time.Since(t00).Nanoseconds()
				resp := doReq(h, c.Batch[i])
				t1 := time.Since(t00).Nanoseconds()
				mu.Lock()
				rd.Batch[i] = concReq{resp.Status, resp.Body, t0, t1}
				done[i] = true
				mu.Unlock()
			}(i)
		}
		close(start)
		fin := make(chan struct{})
		go func() { wg.Wait(); close(fin) }()
		select {
		case <-fin:
		case <-time.After(10 * time.Second):
			mu.Lock()
			for _, d := range done {
				if !d {
					rd.Stuck++
				}
			}
			mu.Unlock()
		}
		close(stopChurn)
		churnWG.Wait()
		if rd.Stuck == 0 {
			rd.Final = doReq(h, apiReq{Method: "GET", Path: "/proxies"}).Body
			rd.Probes = map[string]bool{}
			for _, a := range c.Probes {
				conn, err := net.DialTimeout("tcp", a, 300*time.Millisecond)
				rd.Probes[a] = err == nil
				if err == nil {
					conn.Close()
				}
			}
			// take down whatever still listens, listed or not
			server.Collection.Clear()
		}
		out = append(out, rd)
		if rd.Stuck > 0 {
			break // the server is wedged; zombies cannot be cleaned either
		}
		for _, a := range c.Probes {
			// a zombie listener (not in the collection) survives Clear(): it is reported by the probe above
			_ = a
		}
	}
	_ = httptest.NewRecorder
	_ = strings.TrimSpace
	return out
}

func runConc(raw []byte) interface{} {
	var in struct {
		Cases []concCase `json:"cases"`
	}
	if err := json.Unmarshal(raw, &in); err != nil {
		panic(err)
	}
	out := make([][]concRound, len(in.Cases))
	for i, c := range in.Cases {
		out[i] = runConcCase(c)
	}
	return out
}

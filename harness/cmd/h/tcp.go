package main

import (
	"encoding/json"
	"errors"
	"fmt"
	"io"
	"net"
	"net/http"
	"net/http/httptest"
	"os"
	"runtime"
	"sort"
	"strings"
	"sync"
	"syscall"
	"time"

	"github.com/rs/zerolog"

	toxiproxy "github.com/Shopify/toxiproxy/v2"
	"github.com/Shopify/toxiproxy/v2/collectors"
)

// tcp mode: scripted scenarios with real sockets on loopback against an in-process server
// (API through httptest on server.Routes(); proxies, clients and upstreams are real TCP).

type tcpOp struct {
	Op      string `json:"op"`
	ID      string `json:"id,omitempty"`
	Method  string `json:"method,omitempty"`
	Path    string `json:"path,omitempty"`
	Body    string `json:"body,omitempty"`
	Addr    string `json:"addr,omitempty"`
	Port    int    `json:"port,omitempty"`
	Mode    string `json:"mode,omitempty"`
	N       int    `json:"n,omitempty"`
	Ms      int    `json:"ms,omitempty"`
	How     string `json:"how,omitempty"`
	Up      string `json:"up,omitempty"`
	Proxy   string `json:"proxy,omitempty"`
}

type tcpRes struct {
	Op      string            `json:"op"`
	OK      bool              `json:"ok"`
	Status  int               `json:"status,omitempty"`
	Body    string            `json:"body,omitempty"`
	Got     int               `json:"got,omitempty"`
	Content bool              `json:"content_ok,omitempty"`
	End     string            `json:"end,omitempty"` // ok | eof | reset | timeout | err:<text>
	Took    int64             `json:"took_ms,omitempty"`
	Counts  map[string]int    `json:"counts,omitempty"`
	Metrics map[string]float64 `json:"metrics,omitempty"`
	Err     string            `json:"err,omitempty"`
}

type tconn struct {
	c        net.Conn
	sent     int // bytes written so far (pattern offset)
	received int // bytes read so far (pattern offset of the peer's stream)
	seed     int
}

func pat(seed, k int) byte { return byte((seed*31 + k*7 + 3) % 251) }

// slowUp: a listener with backlog 1 that is full and does not accept until released, so that a dial
// to it hangs in the TCP handshake (SYN retransmission) - the window in which a proxy is stopped
// while its accept loop is still dialling the upstream
type slowUp struct {
	fd      int
	fillers []net.Conn
	release chan struct{}
	peers   []int
	mu      sync.Mutex
}

func newSlowUp(port int) (*slowUp, error) {
	fd, err := syscall.Socket(syscall.AF_INET, syscall.SOCK_STREAM, 0)
	if err != nil {
		return nil, err
	}
	syscall.SetsockoptInt(fd, syscall.SOL_SOCKET, syscall.SO_REUSEADDR, 1)
	if err = syscall.Bind(fd, &syscall.SockaddrInet4{Port: port, Addr: [4]byte{127, 0, 0, 1}}); err != nil {
		syscall.Close(fd)
		return nil, err
	}
	if err = syscall.Listen(fd, 1); err != nil {
		syscall.Close(fd)
		return nil, err
	}
	u := &slowUp{fd: fd, release: make(chan struct{})}
	for i := 0; i < 64; i++ {
		c, err := net.DialTimeout("tcp", fmt.Sprintf("127.0.0.1:%d", port), 300*time.Millisecond)
		if err != nil {
			break
		}
		u.fillers = append(u.fillers, c)
	}
	go func() {
		<-u.release
		for {
			nfd, _, err := syscall.Accept(u.fd)
			if err != nil {
				return
			}
			u.mu.Lock()
			u.peers = append(u.peers, nfd)
			u.mu.Unlock()
		}
	}()
	return u, nil
}

func (u *slowUp) close() {
	select {
	case <-u.release:
	default:
		close(u.release)
	}
	syscall.Shutdown(u.fd, syscall.SHUT_RDWR)
	syscall.Close(u.fd)
	for _, c := range u.fillers {
		c.Close()
	}
	u.mu.Lock()
	for _, p := range u.peers {
		syscall.Close(p)
	}
	u.mu.Unlock()
}

type upstream struct {
	ln      net.Listener
	mode    string
	mu      sync.Mutex
	pending []net.Conn
	all     []net.Conn
}

func (u *upstream) serve() {
	for {
		c, err := u.ln.Accept()
		if err != nil {
			return
		}
		u.mu.Lock()
		u.all = append(u.all, c)
		switch u.mode {
		case "echo":
			go func() { io.Copy(c, c); c.Close() }()
		case "sink":
			go func() { io.Copy(io.Discard, c); c.Close() }()
		case "closeimm":
			c.Close()
		default: // manual: handed to the script by "upaccept"
			u.pending = append(u.pending, c)
		}
		u.mu.Unlock()
	}
}

func classifyErr(err error) string {
	if err == nil {
		return "ok"
	}
	if errors.Is(err, io.EOF) {
		return "eof"
	}
	var ne net.Error
	if errors.As(err, &ne) && ne.Timeout() {
		return "timeout"
	}
	if errors.Is(err, syscall.ECONNRESET) || errors.Is(err, syscall.EPIPE) {
		return "reset"
	}
	if errors.Is(err, syscall.ECONNREFUSED) {
		return "refused"
	}
	if errors.Is(err, net.ErrClosed) {
		return "closed"
	}
	return "err:" + err.Error()
}

func fdCount() int {
	ents, err := os.ReadDir("/proc/self/fd")
	if err != nil {
		return -1
	}
	return len(ents)
}

func runTCPCase(ops []tcpOp) []tcpRes {
	server := toxiproxy.NewServer(toxiproxy.NewMetricsContainer(nil), zerolog.Nop())
	server.Metrics.ProxyMetrics = collectors.NewProxyMetricCollectors()
	h := server.Routes()
	conns := map[string]*tconn{}
	ups := map[string]*upstream{}
	slows := map[string]*slowUp{}
	defer func() {
		for _, u := range slows {
			u.close()
		}
	}()
	res := make([]tcpRes, 0, len(ops))
	defer func() {
		for _, c := range conns {
			c.c.Close()
		}
		server.Collection.Clear()
		for _, u := range ups {
			u.ln.Close()
			u.mu.Lock()
			for _, c := range u.all {
				c.Close()
			}
			u.mu.Unlock()
		}
	}()
	seedCounter := 0
	for _, op := range ops {
		r := tcpRes{Op: op.Op}
		t0 := time.Now()
		switch op.Op {
		case "api":
			req := httptest.NewRequest(op.Method, op.Path, strings.NewReader(op.Body))
			req.Header.Set("User-Agent", "verif-harness")
			rec := httptest.NewRecorder()
			if op.Ms > 0 {
				// bounded: a request that does not return within Ms is reported as stuck (status -1) and left behind
				done := make(chan struct{})
				go func() { h.ServeHTTP(rec, req); close(done) }()
				select {
				case <-done:
					r.Status, r.Body, r.OK = rec.Code, rec.Body.String(), rec.Code < 400
				case <-time.After(time.Duration(op.Ms) * time.Millisecond):
					r.Status, r.End = -1, "stuck"
				}
				break
			}
			h.ServeHTTP(rec, req)
			r.Status, r.Body, r.OK = rec.Code, rec.Body.String(), rec.Code < 400
		case "upstream":
			ln, err := net.Listen("tcp", fmt.Sprintf("127.0.0.1:%d", op.Port))
			if err != nil {
				r.Err = err.Error()
				break
			}
			u := &upstream{ln: ln, mode: op.Mode}
			ups[op.ID] = u
			go u.serve()
			r.OK = true
		case "slowupstream":
			u, err := newSlowUp(op.Port)
			if err != nil {
				r.Err = err.Error()
				break
			}
			slows[op.ID] = u
			r.OK = len(u.fillers) < 60
			r.Got = len(u.fillers)
		case "uprelease":
			if u := slows[op.ID]; u != nil {
				d := time.Duration(op.Ms) * time.Millisecond
				go func() {
					time.Sleep(d)
					select {
					case <-u.release:
					default:
						close(u.release)
					}
				}()
				r.OK = true
			}
		case "upstop":
			if u := ups[op.ID]; u != nil {
				u.ln.Close()
				r.OK = true
			}
		case "upaccept":
			u := ups[op.Up]
			deadline := time.Now().Add(time.Duration(op.Ms) * time.Millisecond)
			for u != nil {
				u.mu.Lock()
				if len(u.pending) > 0 {
					c := u.pending[0]
					u.pending = u.pending[1:]
					seedCounter++
					conns[op.ID] = &tconn{c: c, seed: seedCounter}
					r.OK = true
				}
				u.mu.Unlock()
				if r.OK || time.Now().After(deadline) {
					break
				}
				time.Sleep(2 * time.Millisecond)
			}
		case "dial":
			c, err := net.DialTimeout("tcp", op.Addr, time.Second)
			if err != nil {
				r.End = classifyErr(err)
				break
			}
			seedCounter++
			conns[op.ID] = &tconn{c: c, seed: seedCounter}
			r.OK, r.End = true, "ok"
		case "pair":
			// ID reads what Up writes: share the pattern seed so that content can be checked
			if a, b := conns[op.ID], conns[op.Up]; a != nil && b != nil {
				r.OK = true
				_ = a
			}
		case "send":
			c := conns[op.ID]
			if c == nil {
				r.Err = "no such connection"
				break
			}
			buf := make([]byte, op.N)
			for i := range buf {
				buf[i] = pat(c.seed, c.sent+i)
			}
			c.c.SetWriteDeadline(time.Now().Add(2 * time.Second))
			n, err := c.c.Write(buf)
			c.sent += n
			r.Got, r.End, r.OK = n, classifyErr(err), err == nil
		case "recv":
			// reads the stream written by connection op.Up (its pattern), up to N bytes
			c, src := conns[op.ID], conns[op.Up]
			if c == nil {
				r.Err = "no such connection"
				break
			}
			seed := c.seed
			if src != nil {
				seed = src.seed
			}
			buf := make([]byte, 32768)
			r.Content = true
			deadline := time.Now().Add(time.Duration(op.Ms) * time.Millisecond)
			var err error
			for r.Got < op.N {
				c.c.SetReadDeadline(deadline)
				want := op.N - r.Got
				if want > len(buf) {
					want = len(buf)
				}
				var n int
				n, err = c.c.Read(buf[:want])
				for i := 0; i < n; i++ {
					if buf[i] != pat(seed, c.received+i) {
						r.Content = false
					}
				}
				c.received += n
				r.Got += n
				if err != nil {
					break
				}
			}
			r.End = classifyErr(err)
			r.OK = err == nil
		case "close":
			c := conns[op.ID]
			if c == nil {
				break
			}
			if op.How == "rst" {
				if tc, ok := c.c.(*net.TCPConn); ok {
					tc.SetLinger(0)
				}
			}
			if op.How == "half" {
				if tc, ok := c.c.(*net.TCPConn); ok {
					tc.CloseWrite()
					r.OK = true
					break
				}
			}
			c.c.Close()
			r.OK = true
		case "emfile":
			// makes one accept() of the listener at Addr fail with EMFILE: the descriptor table is filled up to a lowered soft limit
			// with exactly one slot left, which the dialling client socket takes; everything is released again afterwards
			var lim, old syscall.Rlimit
			if err := syscall.Getrlimit(syscall.RLIMIT_NOFILE, &lim); err != nil {
				r.Err = err.Error()
				break
			}
			old = lim
			ents, _ := os.ReadDir("/proc/self/fd")
			lim.Cur = uint64(len(ents) + 6)
			if err := syscall.Setrlimit(syscall.RLIMIT_NOFILE, &lim); err != nil {
				r.Err = err.Error()
				break
			}
			var fillers []*os.File
			for {
				f, err := os.Open("/dev/null")
				if err != nil {
					break
				}
				fillers = append(fillers, f)
			}
			if len(fillers) > 0 {
				fillers[len(fillers)-1].Close()
				fillers = fillers[:len(fillers)-1]
			}
			c, derr := net.DialTimeout("tcp", op.Addr, 500*time.Millisecond)
			time.Sleep(150 * time.Millisecond)
			if c != nil {
				c.Close()
			}
			for _, f := range fillers {
				f.Close()
			}
			syscall.Setrlimit(syscall.RLIMIT_NOFILE, &old)
			r.OK = derr == nil
			time.Sleep(50 * time.Millisecond)
		case "flood":
			// keeps writing to the connection from a goroutine of its own until the write fails (the peer of this stream is not reading:
			// every buffer on the way fills up and the proxy's link for this direction blocks)
			if c := conns[op.ID]; c != nil {
				go func(cn net.Conn) {
					buf := make([]byte, 65536)
					for {
						cn.SetWriteDeadline(time.Now().Add(30 * time.Second))
						if _, err := cn.Write(buf); err != nil {
							return
						}
					}
				}(c.c)
				r.OK = true
			}
		case "sleep":
			time.Sleep(time.Duration(op.Ms) * time.Millisecond)
			r.OK = true
		case "bindcheck":
			ln, err := net.Listen("tcp", fmt.Sprintf("127.0.0.1:%d", op.Port))
			if err == nil {
				ln.Close()
				r.OK = true
			} else {
				r.End = classifyErr(err)
				r.Err = err.Error()
			}
		case "census":
			// give finished goroutines a moment to exit
			var g int
			for i := 0; i < 40; i++ {
				runtime.GC()
				g = runtime.NumGoroutine()
				time.Sleep(5 * time.Millisecond)
			}
			r.Counts = map[string]int{"goroutines": g, "fds": fdCount()}
			for name, p := range server.Collection.Proxies() {
				l, c := p.VerifCounts()
				r.Counts["links:"+name] = l
				r.Counts["conns:"+name] = c
			}
			r.OK = true
		case "metrics":
			req := httptest.NewRequest("GET", "/metrics", nil)
			rec := httptest.NewRecorder()
			h.ServeHTTP(rec, req)
			r.Status = rec.Code
			r.Metrics = map[string]float64{}
			for _, line := range strings.Split(rec.Body.String(), "\n") {
				if strings.HasPrefix(line, "toxiproxy_proxy_") {
					i := strings.LastIndex(line, " ")
					var v float64
					fmt.Sscanf(line[i+1:], "%g", &v)
					r.Metrics[line[:i]] = v
				}
			}
			r.OK = rec.Code == http.StatusOK
		default:
			r.Err = "unknown op"
		}
		r.Took = time.Since(t0).Milliseconds()
		res = append(res, r)
	}
	return res
}

func runTCP(raw []byte) interface{} {
	var in struct {
		Cases [][]tcpOp `json:"cases"`
	}
	if err := json.Unmarshal(raw, &in); err != nil {
		panic(err)
	}
	out := make([][]tcpRes, len(in.Cases))
	for i, c := range in.Cases {
		out[i] = runTCPCase(c)
	}
	_ = sort.Strings
	return out
}

package main

import (
	"encoding/json"
	"io"
	"net"
	"net/http"
	"net/http/httptest"
	"strings"
	"time"

	"github.com/rs/zerolog"

	toxiproxy "github.com/Shopify/toxiproxy/v2"
)

// api mode: request sequences against server.Routes() in process (no API socket; proxies bind
// real loopback ports chosen by the generator from a range this process owns).

type apiReq struct {
	Method string `json:"method"`
	Path   string `json:"path"`
	Body   string `json:"body"`
	UA     string `json:"ua"`
	NoBody bool   `json:"nobody"`
	// PauseMs > 0: the body arrives in two parts with this pause in between (a slow or chunked client), which widens the window
	// between a handler's first look at the state and the end of its parsing of the body
	PauseMs int `json:"pause_ms,omitempty"`
}

type slowBody struct {
	parts [][]byte
	pause time.Duration
	k     int
}

func (b *slowBody) Read(p []byte) (int, error) {
	if b.k >= len(b.parts) {
		return 0, io.EOF
	}
	if b.k > 0 && len(b.parts[b.k]) > 0 && b.pause > 0 {
		time.Sleep(b.pause)
		b.pause = 0
	}
	n := copy(p, b.parts[b.k])
	b.parts[b.k] = b.parts[b.k][n:]
	if len(b.parts[b.k]) == 0 {
		b.k++
	}
	return n, nil
}

type apiCase struct {
	Reqs []apiReq `json:"reqs"`
	// Probes: addresses dialled after every request; the ones that accept a connection are reported (what is really listening,
	// to be compared with what the API lists as enabled)
	Probes []string `json:"probes"`
}

type apiResp struct {
	Status  int    `json:"status"`
	Body    string `json:"body"`
	CT      string `json:"ct"`
	Proxies string `json:"proxies"` // raw GET /proxies after the request
	Listening []string `json:"listening"` // the probe addresses that accept a connection after the request
	Status2 int `json:"status2,omitempty"` // -1: the GET /proxies after the request never returned
	Panic   string `json:"panic,omitempty"`
}

func doReq(h http.Handler, r apiReq) (resp apiResp) {
	defer func() {
		if e := recover(); e != nil {
			resp.Panic = "panic in handler"
			resp.Status = -1
		}
	}()
	var body io.Reader
	if !r.NoBody {
		body = strings.NewReader(r.Body)
		if r.PauseMs > 0 && len(r.Body) > 1 {
			h := len(r.Body) / 2
			body = &slowBody{parts: [][]byte{[]byte(r.Body[:h]), []byte(r.Body[h:])}, pause: time.Duration(r.PauseMs) * time.Millisecond}
		}
	}
	req := httptest.NewRequest(r.Method, r.Path, body)
	if r.UA != "" {
		req.Header.Set("User-Agent", r.UA)
	} else {
		req.Header.Set("User-Agent", "verif-harness")
	}
	rec := httptest.NewRecorder()
	h.ServeHTTP(rec, req)
	resp.Status = rec.Code
	resp.Body = rec.Body.String()
	resp.CT = rec.Header().Get("Content-Type")
	return
}

func runAPI(raw []byte) interface{} {
	var in struct {
		Cases []apiCase `json:"cases"`
	}
	if err := json.Unmarshal(raw, &in); err != nil {
		panic(err)
	}
	out := make([][]apiResp, len(in.Cases))
	for i, c := range in.Cases {
		server := toxiproxy.NewServer(toxiproxy.NewMetricsContainer(nil), zerolog.Nop())
		h := server.Routes()
		stuck := false
		for _, r := range c.Reqs {
			if stuck {
				out[i] = append(out[i], apiResp{Status: -2})
				continue
			}
			resp, ok := doReqBounded(h, r)
			if !ok {
				// the request never returned: the server is wedged, nothing after it can be judged
				out[i] = append(out[i], apiResp{Status: -1, Panic: ""})
				stuck = true
				continue
			}
			after, ok2 := doReqBounded(h, apiReq{Method: "GET", Path: "/proxies"})
			if !ok2 {
				resp.Proxies = ""
				resp.Status2 = -1
				out[i] = append(out[i], resp)
				stuck = true
				continue
			}
			resp.Proxies = after.Body
			resp.Listening = []string{}
			for _, a := range c.Probes {
				if conn, err := net.DialTimeout("tcp", a, 200*time.Millisecond); err == nil {
					conn.Close()
					resp.Listening = append(resp.Listening, a)
				}
			}
			out[i] = append(out[i], resp)
		}
		if !stuck {
			server.Collection.Clear()
		}
	}
	return out
}

// doReqBounded runs the request in a goroutine of its own and gives up after 6 s (a wedged handler is left behind)
func doReqBounded(h http.Handler, r apiReq) (apiResp, bool) {
	ch := make(chan apiResp, 1)
	go func() { ch <- doReq(h, r) }()
	select {
	case resp := <-ch:
		return resp, true
	case <-time.After(6 * time.Second):
		return apiResp{}, false
	}
}

module verifharness

go 1.23.0

require (
	github.com/Shopify/toxiproxy/v2 v2.0.0
	github.com/prometheus/client_golang v1.21.1
	github.com/prometheus/client_model v0.6.1
	github.com/rs/zerolog v1.34.0
)

require (
	github.com/beorn7/perks v1.0.1 // indirect
	github.com/cespare/xxhash/v2 v2.3.0 // indirect
	github.com/gorilla/mux v1.8.1 // indirect
	github.com/klauspost/compress v1.17.11 // indirect
	github.com/mattn/go-colorable v0.1.13 // indirect
	github.com/mattn/go-isatty v0.0.20 // indirect
	github.com/munnerz/goautoneg v0.0.0-20191010083416-a7dc8b61c822 // indirect
	github.com/prometheus/common v0.62.0 // indirect
	github.com/prometheus/procfs v0.15.1 // indirect
	github.com/rs/xid v1.6.0 // indirect
	golang.org/x/sys v0.31.0 // indirect
	google.golang.org/protobuf v1.36.1 // indirect
	gopkg.in/tomb.v1 v1.0.0-20141024135613-dd632973f1e7 // indirect
)

replace github.com/Shopify/toxiproxy/v2 => /repo

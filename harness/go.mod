module verifharness

go 1.23.0

require github.com/Shopify/toxiproxy/v2 v2.0.0

replace github.com/Shopify/toxiproxy/v2 => /repo

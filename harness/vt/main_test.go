// Package vt holds the correspondence harnesses that need virtual time or deterministic
// "is this goroutine blocked" detection (testing/synctest, go1.26.8). It is compiled as a test
// binary (synctest needs *testing.T) and run as:
//   vt.test -test.run '^TestHarness$' -mode <m> -in <cases.json> -out <results.json>
package vt

import (
	"encoding/json"
	"flag"
	"os"
	"testing"
)

var (
	flagMode = flag.String("mode", "", "harness mode")
	flagIn   = flag.String("in", "", "input file (JSON)")
	flagOut  = flag.String("out", "", "output file (JSON)")
)

func TestHarness(t *testing.T) {
	if *flagMode == "" {
		t.Skip("no -mode")
	}
	raw, err := os.ReadFile(*flagIn)
	if err != nil {
		t.Fatal(err)
	}
	var res interface{}
	switch *flagMode {
	case "c18":
		res = runC18(t, raw)
	case "link":
		res = runLinks(t, raw)
	case "pure":
		res = runPure(t, raw)
	case "race":
		res = runRace(t, raw)
	default:
		t.Fatalf("unknown mode %q", *flagMode)
	}
	b, err := json.Marshal(res)
	if err != nil {
		t.Fatal(err)
	}
	if err := os.WriteFile(*flagOut, b, 0o644); err != nil {
		t.Fatal(err)
	}
}

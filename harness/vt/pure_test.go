package vt

import (
	"encoding/json"
	"math/rand"
	"testing"

	"github.com/Shopify/toxiproxy/v2/toxics"
)

// direct differential of the extracted pure functions (slicer.chunk, latency.delay) through the
// verif shims, with a mirrored PRNG: the draws the function consumes are reproduced from the seed.

type chunkCase struct {
	Avg  int   `json:"avg"`
	Var  int   `json:"var"`
	N    int   `json:"n"`
	Seed int64 `json:"seed"`
}

type chunkResult struct {
	Offsets []int   `json:"offsets"`
	Draws   []int64 `json:"draws"`
	Panic   string  `json:"panic,omitempty"`
}

type delayCase struct {
	Lat  int64 `json:"lat"`
	Jit  int64 `json:"jit"`
	Seed int64 `json:"seed"`
}

type delayResult struct {
	Ns    int64   `json:"ns"`
	Draws []int64 `json:"draws"`
	Panic string  `json:"panic,omitempty"`
}

func runPure(t *testing.T, raw []byte) interface{} {
	var in struct {
		Chunk []chunkCase `json:"chunk"`
		Delay []delayCase `json:"delay"`
	}
	if err := json.Unmarshal(raw, &in); err != nil {
		t.Fatal(err)
	}
	out := struct {
		Chunk []chunkResult `json:"chunk"`
		Delay []delayResult `json:"delay"`
	}{}
	for _, c := range in.Chunk {
		var r chunkResult
		func() {
			defer func() {
				if e := recover(); e != nil {
					r.Panic = "panic"
				}
			}()
			tx := &toxics.SlicerToxic{AverageSize: c.Avg, SizeVariation: c.Var}
			rand.Seed(c.Seed)
			r.Offsets = tx.VerifChunk(0, c.N)
			if c.Var > 0 {
				m := rand.New(rand.NewSource(c.Seed))
				for i := 0; i < len(r.Offsets)/2+2; i++ {
					r.Draws = append(r.Draws, int64(m.Intn(c.Var*2)))
				}
			}
		}()
		out.Chunk = append(out.Chunk, r)
	}
	for _, c := range in.Delay {
		var r delayResult
		func() {
			defer func() {
				if e := recover(); e != nil {
					r.Panic = "panic"
				}
			}()
			tx := &toxics.LatencyToxic{Latency: c.Lat, Jitter: c.Jit}
			rand.Seed(c.Seed)
			r.Ns = int64(tx.VerifDelay())
			if c.Jit > 0 && c.Jit*2 > 0 {
				m := rand.New(rand.NewSource(c.Seed))
				r.Draws = append(r.Draws, m.Int63n(c.Jit*2))
			}
		}()
		out.Delay = append(out.Delay, r)
	}
	return out
}

package vt

import (
	"encoding/json"
	"fmt"
	"io"
	"sync"
	"testing"
	"testing/synctest"

	"github.com/Shopify/toxiproxy/v2/stream"
)

type c18Op struct {
	K string `json:"k"` // avail | close | read | mutate
	N int    `json:"n"`
}

type c18Case struct {
	Writes [][]int `json:"writes"`
	Ops    []c18Op `json:"ops"`
	// concurrent (oracle-only) cases
	Conc  bool  `json:"conc"`
	Cap   int   `json:"cap"`
	Reads []int `json:"reads"`
	// IntrEvery > 0 (concurrent cases): an interrupt token is made pending (buffered interrupt channel, non-blocking send) before every
	// IntrEvery-th Read, so that data and interrupt are often ready for the same Read; interrupted reads are simply repeated
	IntrEvery int `json:"intr_every"`
	// ViaCopy: the writer is fed by io.Copy(writer, source) (as link.go feeds it from a socket) from a source that hands out the
	// writes one per Read; DataEOF: the source returns its last bytes together with io.EOF, as readers are allowed to
	ViaCopy bool `json:"via_copy"`
	DataEOF bool `json:"data_eof"`
}

type c18Read struct {
	Armed   bool  `json:"armed,omitempty"` // readp: an interrupt was pending before Read was called
	Blocked bool  `json:"blocked"`
	Data    []int `json:"data"`
	Err     int   `json:"err"` // 0 nil, 1 EOF, 2 ErrInterrupted, 3 other
}

type c18Result struct {
	Reads []c18Read `json:"reads"`
	// concurrent cases: everything read until EOF, and whether EOF came
	All []int `json:"all,omitempty"`
	EOF bool  `json:"eof,omitempty"`
	// a goroutine was left blocked for ever, or the code panicked
	Panic string `json:"panic,omitempty"`
	// a Write did not report (len(buf), nil)
	BadWrite string `json:"bad_write,omitempty"`
}

func errCode(err error) int {
	switch err {
	case nil:
		return 0
	case io.EOF:
		return 1
	case stream.ErrInterrupted:
		return 2
	}
	return 3
}

func toBytes(xs []int) []byte {
	if len(xs) == 0 {
		return nil // a zero-length write with a nil argument (e.g. Bytes() of a fresh bytes.Buffer)
	}
	b := make([]byte, len(xs))
	for i, x := range xs {
		b[i] = byte(x)
	}
	return b
}

func toInts(b []byte) []int {
	xs := make([]int, len(b))
	for i, x := range b {
		xs[i] = int(x)
	}
	return xs
}

func runC18(t *testing.T, raw []byte) []c18Result {
	var in struct {
		Cases []c18Case `json:"cases"`
	}
	if err := json.Unmarshal(raw, &in); err != nil {
		t.Fatal(err)
	}
	res := make([]c18Result, len(in.Cases))
	for i := range in.Cases {
		c := &in.Cases[i]
		func() {
			defer func() {
				if r := recover(); r != nil {
					res[i].Panic = fmt.Sprint(r)
					if len(res[i].Panic) > 300 {
						res[i].Panic = res[i].Panic[:300]
					}
				}
			}()
			synctest.Test(t, func(t *testing.T) {
				if c.Conc {
					res[i] = c18Concurrent(c)
				} else {
					res[i] = c18Scripted(c)
				}
			})
		}()
	}
	return res
}

// scripted: the channel is pre-loaded with exactly the chunks the schedule makes available before
// each Read; a Read that blocks (synctest.Wait says so, deterministically) is then interrupted.
func c18Scripted(c *c18Case) c18Result {
	ch := make(chan *stream.StreamChunk, len(c.Writes)+1)
	w := stream.NewChanWriter(ch)
	r := stream.NewChanReader(ch)
	intr := make(chan struct{})
	r.SetInterrupt(intr)
	next := 0
	closedW := false
	var lastBuf []byte
	var out c18Result
	for _, op := range c.Ops {
		switch op.K {
		case "avail":
			for k := 0; k < op.N && next < len(c.Writes); k++ {
				lastBuf = toBytes(c.Writes[next])
				next++
				w.Write(lastBuf)
			}
		case "mutate":
			for j := range lastBuf {
				lastBuf[j] = 0xEE
			}
		case "close":
			w.Close()
			closedW = true
		case "read":
			buf := make([]byte, op.N)
			var n int
			var err error
			done := make(chan struct{})
			go func() {
				n, err = r.Read(buf)
				close(done)
			}()
			synctest.Wait()
			blocked := false
			select {
			case <-done:
			default:
				blocked = true
				intr <- struct{}{}
				<-done
			}
			out.Reads = append(out.Reads, c18Read{false, blocked, toInts(buf[:n]), errCode(err)})
		case "readp":
			// a Read called while an interrupt is ALREADY pending (somebody is blocked sending on the interrupt channel). Only armed
			// when nothing is queued and the writer has not closed: then the outcome does not depend on which ready arm a select picks
			// (carry left: the data is returned and the interrupt stays pending; no carry: the read is interrupted).
			armed := len(ch) == 0 && !closedW
			cancel := make(chan struct{})
			sent := make(chan struct{})
			if armed {
				go func() {
					select {
					case intr <- struct{}{}:
					case <-cancel:
					}
					close(sent)
				}()
				synctest.Wait()
			}
			buf := make([]byte, op.N)
			var n int
			var err error
			done := make(chan struct{})
			go func() {
				n, err = r.Read(buf)
				close(done)
			}()
			synctest.Wait()
			blocked := false
			select {
			case <-done:
			default:
				blocked = true
				intr <- struct{}{}
				<-done
			}
			if armed {
				close(cancel)
				<-sent
			}
			out.Reads = append(out.Reads, c18Read{armed, blocked, toInts(buf[:n]), errCode(err)})
		}
	}
	return out
}

// concurrent: writer goroutine against reader goroutine over a channel of the given capacity;
// only the end-to-end oracle is recorded.
// scriptSource hands out the given chunks, one per Read (a chunk larger than the buffer continues in the next Read)
type scriptSource struct {
	chunks  [][]byte
	dataEOF bool
}

func (s *scriptSource) Read(p []byte) (int, error) {
	for len(s.chunks) > 0 && len(s.chunks[0]) == 0 {
		s.chunks = s.chunks[1:]
	}
	if len(s.chunks) == 0 {
		return 0, io.EOF
	}
	n := copy(p, s.chunks[0])
	s.chunks[0] = s.chunks[0][n:]
	if len(s.chunks[0]) == 0 {
		s.chunks = s.chunks[1:]
	}
	if s.dataEOF && len(s.chunks) == 0 {
		return n, io.EOF
	}
	return n, nil
}

func c18Concurrent(c *c18Case) c18Result {
	ch := make(chan *stream.StreamChunk, c.Cap)
	w := stream.NewChanWriter(ch)
	r := stream.NewChanReader(ch)
	var wg sync.WaitGroup
	badWrite := ""
	wg.Add(1)
	go func() {
		defer wg.Done()
		if c.ViaCopy {
			src := &scriptSource{dataEOF: c.DataEOF}
			total := 0
			for _, d := range c.Writes {
				src.chunks = append(src.chunks, toBytes(d))
				total += len(d)
			}
			if n, err := io.Copy(w, src); n != int64(total) || err != nil {
				badWrite = fmt.Sprintf("io.Copy of %d bytes into the writer reported (%d, %v)", total, n, err)
			}
			w.Close()
			return
		}
		for _, d := range c.Writes {
			b := toBytes(d)
			if n, err := w.Write(b); n != len(b) || err != nil {
				badWrite = fmt.Sprintf("Write of %d bytes reported (%d, %v)", len(b), n, err)
			}
			for j := range b {
				b[j] = 0xEE
			}
		}
		w.Close()
	}()
	var out c18Result
	var intr chan struct{}
	if c.IntrEvery > 0 {
		intr = make(chan struct{}, 1)
		r.SetInterrupt(intr)
	}
	for i := 0; i < 100000; i++ {
		sz := c.Reads[i%len(c.Reads)]
		buf := make([]byte, sz)
		if intr != nil && i%c.IntrEvery == 0 {
			synctest.Wait() // let the writer fill the channel first: data and interrupt are then ready together
			select {
			case intr <- struct{}{}:
			default:
			}
		}
		n, err := r.Read(buf)
		out.All = append(out.All, toInts(buf[:n])...)
		if err == io.EOF {
			out.EOF = true
			break
		}
		if err == stream.ErrInterrupted {
			continue
		}
		if err != nil {
			break
		}
	}
	wg.Wait()
	out.BadWrite = badWrite
	return out
}

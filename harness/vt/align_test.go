package vt

import toxiproxy "github.com/Shopify/toxiproxy/v2"

// alignment is filled in by the verif shim (see /repo export_verif.go); without it, nil.
func alignment(p *toxiproxy.Proxy) [][]string { return nil }

package vt

import (
	"strings"

	toxiproxy "github.com/Shopify/toxiproxy/v2"
)

// alignment: per registered link "name|dir|chain names|stub states" through the verif shim.
func alignment(p *toxiproxy.Proxy) [][]string {
	var res [][]string
	for _, v := range p.VerifLinks() {
		res = append(res, []string{v.Name, v.Direction, strings.Join(v.Chain, ","), strings.Join(v.Stubs, ",")})
	}
	return res
}

package vt

import (
	"encoding/json"
	"fmt"
	"io"
	"strings"
	"sync/atomic"
	"testing"
	"time"

	"github.com/prometheus/client_golang/prometheus"
	"github.com/rs/zerolog"

	toxiproxy "github.com/Shopify/toxiproxy/v2"
	"github.com/Shopify/toxiproxy/v2/stream"
)

// mode "race": real time, real scheduler. Many in-memory links stream data through one toxic while its attributes are
// updated through the collection's API entry point, alternating between the given bodies. The stages read the attributes of
// the shared toxic object while an update writes them; a stage that crashes takes the process down (no result file is
// written then - the driver sees that). Result per case: bytes delivered, updates performed, API errors.
type raceCase struct {
	Toxic    toxicSpec `json:"toxic"`
	Bodies   []string  `json:"bodies"`    // update bodies, applied cyclically
	Links    int       `json:"links"`
	Chunk    int       `json:"chunk"`     // bytes per source write
	Updates  int       `json:"updates"`
	PeriodUs int       `json:"period_us"` // between updates (plus a small varying offset)
	Stagger  int       `json:"stagger_us"`
}

type raceResult struct {
	Delivered int64  `json:"delivered"`
	Updates   int    `json:"updates"`
	Err       string `json:"err,omitempty"`
}

type countSink struct{ n *atomic.Int64 }

func (s countSink) Write(b []byte) (int, error) { s.n.Add(int64(len(b))); return len(b), nil }
func (s countSink) Close() error                { return nil }

func runRace(t *testing.T, raw []byte) []raceResult {
	var in struct {
		Cases []raceCase `json:"cases"`
	}
	if err := json.Unmarshal(raw, &in); err != nil {
		t.Fatal(err)
	}
	res := make([]raceResult, len(in.Cases))
	for i := range in.Cases {
		c := &in.Cases[i]
		server := toxiproxy.NewServer(toxiproxy.NewMetricsContainer(prometheus.NewRegistry()), zerolog.Nop())
		proxy := toxiproxy.NewProxy(server, "p", "127.0.0.1:0", "upstream.invalid:1")
		c.Toxic.Name = "x"
		if _, err := proxy.Toxics.AddToxicJson(strings.NewReader(toxicJSON(&c.Toxic, "downstream"))); err != nil {
			res[i].Err = "add: " + err.Error()
			continue
		}
		var delivered atomic.Int64
		pws := make([]*io.PipeWriter, c.Links)
		for k := 0; k < c.Links; k++ {
			pr, pw := io.Pipe()
			pws[k] = pw
			proxy.Toxics.StartLink(server, fmt.Sprintf("c%d", k), pr, countSink{&delivered}, stream.Downstream)
			go func(k int, pw *io.PipeWriter) {
				time.Sleep(time.Duration(k*c.Stagger) * time.Microsecond)
				buf := make([]byte, c.Chunk)
				for {
					if _, err := pw.Write(buf); err != nil {
						return
					}
				}
			}(k, pw)
		}
		for u := 0; u < c.Updates; u++ {
			time.Sleep(time.Duration(c.PeriodUs+(u*7919)%(c.PeriodUs/2+1)) * time.Microsecond)
			if _, err := proxy.Toxics.UpdateToxicJson("x", strings.NewReader(c.Bodies[u%len(c.Bodies)])); err != nil {
				res[i].Err = "update: " + err.Error()
				break
			}
			res[i].Updates++
		}
		for _, pw := range pws {
			pw.Close()
		}
		res[i].Delivered = delivered.Load()
	}
	return res
}

package vt

import (
	"bytes"
	"errors"
	"os"
	"sync/atomic"
	"encoding/json"
	"fmt"
	"io"
	"math/rand"
	"strings"
	"sync"
	"testing"
	"testing/synctest"
	"time"

	"github.com/prometheus/client_golang/prometheus"
	dto "github.com/prometheus/client_model/go"
	"github.com/rs/zerolog"

	toxiproxy "github.com/Shopify/toxiproxy/v2"
	"github.com/Shopify/toxiproxy/v2/collectors"
	"github.com/Shopify/toxiproxy/v2/stream"
)

// ---- script language -------------------------------------------------------------------------

type toxicSpec struct {
	Name     string                 `json:"name"`
	Type     string                 `json:"type"`
	Stream   string                 `json:"stream"`
	Toxicity float64                `json:"toxicity"`
	Attrs    map[string]interface{} `json:"attributes"`
}

type srcEv struct {
	At    int64 `json:"at"` // ns since link start
	N     int   `json:"n"`
	Close bool  `json:"close"`
}

type apiOp struct {
	At    int64      `json:"at"`
	Op    string     `json:"op"` // add | update | remove | reset | reseed
	Toxic *toxicSpec `json:"toxic,omitempty"`
	Name  string     `json:"name,omitempty"`
	Body  string     `json:"body,omitempty"`
	Seed  int64      `json:"seed,omitempty"`
}

type linkCase struct {
	Dir     string      `json:"dir"`
	Chain   []toxicSpec `json:"chain"`
	Src     []srcEv     `json:"src"`
	Ops     []apiOp     `json:"ops"`
	Horizon int64       `json:"horizon"`
	Seed    int64       `json:"seed"`
	Reseed  int64       `json:"reseed"` // if nonzero: rand.Seed(Reseed) after all stages have started (mirrored PRNG)
	Links   int         `json:"links"`  // number of links on the proxy (default 1)
	DrawKind  string    `json:"draw_kind"`  // "intn" | "int63n": which generator call the single randomized toxic makes
	DrawN     int64     `json:"draw_n"`     // its argument
	DrawCount int       `json:"draw_count"` // how many mirrored draws to report
	SinkDelay []int64   `json:"sink_delay"` // ns the receiver takes to accept each write, cyclically (empty = always ready)
	SinkFailAfter int   `json:"sink_fail_after"` // the receiver's k-th write (1-based) fails (connection reset by the peer); 0 = never
	LinkStart []int64   `json:"link_start"` // per-link: virtual instant at which the connection is established (default 0)
	Srcs    [][]srcEv   `json:"srcs"`   // per-link source scripts (link k uses Srcs[k] when present, else Src)
}

type sinkWrite struct {
	T int64 `json:"t"`
	N int   `json:"n"`
}

type opResult struct {
	At    int64   `json:"at"`
	Done  int64   `json:"done"`
	Err   string  `json:"err"`
	Draws []float64 `json:"draws,omitempty"` // reseed: the next Float32 values the global source will yield
}

type linkResult struct {
	Writes   []sinkWrite `json:"writes"`
	Closed   int64       `json:"closed"` // -1 = not closed at the horizon
	PrefixOK bool        `json:"prefix_ok"`
	SubseqOK bool        `json:"subseq_ok"` // what was received is an in-order part of what was sent
	Total    int         `json:"total"`
	SrcTotal int         `json:"src_total"` // bytes the source managed to write by the horizon
	Rx       float64     `json:"rx"`        // received_bytes_total at the end (after teardown)
	Tx       float64     `json:"tx"`
	Ops      []opResult  `json:"ops,omitempty"`
	Align    [][]string  `json:"align,omitempty"`
	Listing  json.RawMessage `json:"listing,omitempty"` // what GET /proxies/<p>/toxics would answer at the end of the history
	More     []linkResult `json:"more,omitempty"` // further links of the same case
	Draws    []int64      `json:"draws,omitempty"` // mirrored PRNG values after the reseed
	StartDraws []float64  `json:"start_draws,omitempty"` // the first Float32 values of the source seeded at case start
	Leak     string       `json:"leak,omitempty"`
	LinksAfter int        `json:"links_after"` // len(ToxicCollection.links) after everything ended
	ConnsAfter int        `json:"conns_after"`
	Hang     bool         `json:"hang,omitempty"`    // the case wedged (no progress in real time): an API operation never returned
	NotRun   bool         `json:"not_run,omitempty"` // after a wedged case the process exits; these are re-run by the driver // synctest's deadlock report: goroutines still blocked at the end
}

func pattern(k int) byte { return byte((k*7 + 3) % 251) }

type recSink struct {
	mu     sync.Mutex
	delays []int64
	nw     int
	failAt int
	start  time.Time
	writes []sinkWrite
	data   []byte
	closed int64
}

func (s *recSink) Write(b []byte) (int, error) {
	s.mu.Lock()
	defer s.mu.Unlock()
	fail := s.failAt > 0 && len(s.writes)+1 >= s.failAt
	if !fail {
		s.writes = append(s.writes, sinkWrite{int64(time.Since(s.start)), len(b)})
		s.data = append(s.data, b...)
	}
	if len(s.delays) > 0 {
		d := time.Duration(s.delays[s.nw%len(s.delays)])
		s.nw++
		if d > 0 {
			s.mu.Unlock()
			time.Sleep(d) // the receiver is slow: the write returns only after d
			s.mu.Lock()
		}
	}
	if fail {
		return 0, errors.New("write: connection reset by peer")
	}
	return len(b), nil
}

func (s *recSink) Close() error {
	s.mu.Lock()
	defer s.mu.Unlock()
	if s.closed < 0 {
		s.closed = int64(time.Since(s.start))
	}
	return nil
}

func toxicJSON(t *toxicSpec, dir string) string {
	m := map[string]interface{}{"type": t.Type, "toxicity": t.Toxicity, "attributes": t.Attrs}
	if t.Name != "" {
		m["name"] = t.Name
	}
	if t.Stream != "" {
		m["stream"] = t.Stream
	} else {
		m["stream"] = dir
	}
	b, _ := json.Marshal(m)
	return string(b)
}

func counterValue(cv *prometheus.CounterVec, labels []string) float64 {
	c, err := cv.GetMetricWithLabelValues(labels...)
	if err != nil {
		return -1
	}
	var m dto.Metric
	if err := c.Write(&m); err != nil {
		return -1
	}
	return m.GetCounter().GetValue()
}

func runLinks(t *testing.T, raw []byte) []linkResult {
	var in struct {
		Cases []linkCase `json:"cases"`
	}
	dec := json.NewDecoder(bytes.NewReader(raw))
	dec.UseNumber() // attribute values keep their exact decimal text (int64 extremes)
	if err := dec.Decode(&in); err != nil {
		t.Fatal(err)
	}
	res := make([]linkResult, len(in.Cases))
	// watchdog (real time, outside every bubble): a case that wedges on a lock never lets the fake clock advance;
	// the partial results are written with the wedged case marked, and the process exits (status 3)
	var cur, started atomic.Int64
	cur.Store(-1)
	stop := make(chan struct{})
	defer close(stop)
	go func() {
		for {
			select {
			case <-stop:
				return
			case <-time.After(500 * time.Millisecond):
			}
			i := cur.Load()
			if i >= 0 && time.Now().UnixNano()-started.Load() > int64(watchdogSeconds)*1e9 {
				res[i] = linkResult{Hang: true, Closed: -1}
				for j := int(i) + 1; j < len(res); j++ {
					res[j] = linkResult{NotRun: true, Closed: -1}
				}
				b, _ := json.Marshal(res)
				os.WriteFile(*flagOut, b, 0o644)
				os.Exit(3)
			}
		}
	}()
	for i := range in.Cases {
		c := &in.Cases[i]
		started.Store(time.Now().UnixNano())
		cur.Store(int64(i))
		func() {
			// goroutines left blocked for ever when the bubble ends (a leak, see C15) make
			// synctest panic after the case function returned; the observations are already taken
			defer func() {
				if r := recover(); r != nil {
					res[i].Leak = fmt.Sprint(r)
				}
			}()
			synctest.Test(t, func(t *testing.T) {
				res[i] = runLinkCase(t, c)
			})
		}()
	}
	cur.Store(-1)
	return res
}

const watchdogSeconds = 8

func runLinkCase(t *testing.T, c *linkCase) linkResult {
	rand.Seed(c.Seed + 1)
	logger := zerolog.Nop()
	server := toxiproxy.NewServer(toxiproxy.NewMetricsContainer(prometheus.NewRegistry()), logger)
	server.Metrics.ProxyMetrics = collectors.NewProxyMetricCollectors()
	proxy := toxiproxy.NewProxy(server, "p", "127.0.0.1:0", "upstream.invalid:1")
	dir, err := stream.ParseDirection(c.Dir)
	if err != nil {
		t.Fatal(err)
	}
	for i := range c.Chain {
		if _, err := proxy.Toxics.AddToxicJson(strings.NewReader(toxicJSON(&c.Chain[i], c.Dir))); err != nil {
			t.Fatalf("chain toxic %d: %v", i, err)
		}
	}
	nl := c.Links
	if nl < 1 {
		nl = 1
	}
	start := time.Now()
	sinks := make([]*recSink, nl)
	pws := make([]*io.PipeWriter, nl)
	srcTotals := make([]int, nl)
	var srcWG sync.WaitGroup
	prs := make([]*io.PipeReader, nl)
	for k := 0; k < nl; k++ {
		pr, pw := io.Pipe()
		prs[k] = pr
		pws[k] = pw
		sinks[k] = &recSink{start: start, closed: -1, delays: c.SinkDelay, failAt: c.SinkFailAfter}
		if k >= len(c.LinkStart) || c.LinkStart[k] == 0 {
			proxy.Toxics.StartLink(server, fmt.Sprintf("c%d%s", k, c.Dir), pr, sinks[k], dir)
		}
	}
	var lateWG sync.WaitGroup
	for k := 0; k < nl; k++ {
		if k < len(c.LinkStart) && c.LinkStart[k] > 0 {
			lateWG.Add(1)
			go func(k int) {
				defer lateWG.Done()
				time.Sleep(time.Duration(c.LinkStart[k]))
				proxy.Toxics.StartLink(server, fmt.Sprintf("c%d%s", k, c.Dir), prs[k], sinks[k], dir)
			}(k)
		}
	}
	synctest.Wait()
	var mirrored []int64
	if c.Reseed != 0 {
		rand.Seed(c.Reseed)
		if c.DrawN > 0 {
			m := rand.New(rand.NewSource(c.Reseed))
			for i := 0; i < c.DrawCount; i++ {
				if c.DrawKind == "intn" {
					mirrored = append(mirrored, int64(m.Intn(int(c.DrawN))))
				} else {
					mirrored = append(mirrored, m.Int63n(c.DrawN))
				}
			}
		}
	}
	for k := 0; k < nl; k++ {
		srcWG.Add(1)
		go func(k int) {
			defer srcWG.Done()
			sent := 0
			src := c.Src
			if k < len(c.Srcs) {
				src = c.Srcs[k]
			}
			for _, ev := range src {
				if d := time.Duration(ev.At) - time.Since(start); d > 0 {
					time.Sleep(d)
				}
				if ev.Close {
					pws[k].Close()
					return
				}
				buf := make([]byte, ev.N)
				for j := range buf {
					buf[j] = pattern(sent + j)
				}
				n, err := pws[k].Write(buf)
				sent += n
				srcTotals[k] = sent
				if err != nil {
					return
				}
			}
		}(k)
	}
	// API operations at their virtual instants, each from its own goroutine (no Wait before them)
	opRes := make([]opResult, len(c.Ops))
	var opWG sync.WaitGroup
	for i := range c.Ops {
		opWG.Add(1)
		go func(i int) {
			defer opWG.Done()
			op := &c.Ops[i]
			if d := time.Duration(op.At) - time.Since(start); d > 0 {
				time.Sleep(d)
			}
			opRes[i].At = int64(time.Since(start))
			var err error
			switch op.Op {
			case "add":
				_, err = proxy.Toxics.AddToxicJson(strings.NewReader(toxicJSON(op.Toxic, c.Dir)))
			case "update":
				_, err = proxy.Toxics.UpdateToxicJson(op.Name, strings.NewReader(op.Body))
			case "remove":
				err = proxy.Toxics.RemoveToxic(t.Context(), op.Name)
			case "reset":
				proxy.Toxics.ResetToxics(t.Context())
			case "reseed":
				rand.Seed(op.Seed)
				m := rand.New(rand.NewSource(op.Seed))
				for j := 0; j < 4; j++ {
					opRes[i].Draws = append(opRes[i].Draws, float64(m.Float32()))
				}
			}
			if err != nil {
				opRes[i].Err = err.Error()
			}
			opRes[i].Done = int64(time.Since(start))
		}(i)
	}
	time.Sleep(time.Duration(c.Horizon))
	synctest.Wait()
	results := make([]linkResult, nl)
	for k := 0; k < nl; k++ {
		s := sinks[k]
		s.mu.Lock()
		r := linkResult{Writes: append([]sinkWrite(nil), s.writes...), Closed: s.closed, Total: len(s.data), SrcTotal: srcTotals[k]}
		r.PrefixOK = true
		for j, b := range s.data {
			if b != pattern(j) {
				r.PrefixOK = false
				break
			}
		}
		// greedy in-order matching against the bytes the source has written so far
		r.SubseqOK = true
		pos := 0
		for _, b := range s.data {
			for pos < srcTotals[k] && pattern(pos) != b {
				pos++
			}
			if pos >= srcTotals[k] {
				r.SubseqOK = false
				break
			}
			pos++
		}
		s.mu.Unlock()
		results[k] = r
	}
	results[0].Align = alignment(proxy)
	if lb, err := json.Marshal(proxy.Toxics.GetToxicArray()); err == nil {
		results[0].Listing = lb
	}
	// teardown: end every source; everything must drain and exit
	for k := 0; k < nl; k++ {
		pws[k].Close()
	}
	time.Sleep(2 * time.Hour)
	synctest.Wait()
	opWG.Wait()
	srcWG.Wait()
	lateWG.Wait()
	labels := []string{c.Dir, proxy.Name, proxy.Listen, proxy.Upstream}
	results[0].Rx = counterValue(server.Metrics.ProxyMetrics.ReceivedBytesTotal, labels)
	results[0].Tx = counterValue(server.Metrics.ProxyMetrics.SentBytesTotal, labels)
	results[0].Ops = opRes
	nlinks, nconns := proxy.VerifCounts()
	results[0].LinksAfter, results[0].ConnsAfter = nlinks, nconns
	results[0].Draws = mirrored
	sm := rand.New(rand.NewSource(c.Seed + 1))
	for j := 0; j < 8; j++ {
		results[0].StartDraws = append(results[0].StartDraws, float64(sm.Float32()))
	}
	if nl > 1 {
		results[0].More = results[1:]
	}
	_ = bytes.MinRead
	return results[0]
}
